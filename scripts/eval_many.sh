#!/bin/bash
# usage: eval_many.sh <clean-tree> <seeded-id>...   — one summary line per seeded change (scratch copies, /repo untouched)
T=$1; shift
for m in "$@"; do
  ( r=$(/verif/scripts/eval_mutant_scratch.sh $T /verif/seeded/$m/patch.diff 2>&1)
    echo "$m: $(echo "$r" | grep -o '^C[0-9]* exit=[12]' | cut -d' ' -f1 | tr '\n' ' ') :: $(echo "$r" | grep -v KNOWN-FINDING | grep -o 'rule=[A-Za-z0-9]* kind=[a-z]*' | sort -u | sed 's/rule=//; s/ kind=violation//; s/ kind=undecided/(undecided)/' | tr '\n' ' ')" ) &
  while [ $(jobs -r | wc -l) -ge 4 ]; do sleep 1; done
done
wait
