#!/usr/bin/env python3
"""Both-ways validation of the checker (tests the checker, never the property verdict).

Each corpus entry is one edit of a scratch copy of the *current* /repo:
  {"id","property","rule","file","old","new","expect": substring of the reported construct
   or "" for a negative control that must stay silent, "count": occurrence to replace (default 1st)}
The variant must still load and type-check (bwcheck exits 2 otherwise -> reported as 'does not compile').
An edit whose anchor text no longer exists is 'skipped', not failed.
usage: selftest.py [-j N] [-k substr] [--rule R] [--property P]
"""
import json, os, subprocess, sys, tempfile, shutil, argparse, concurrent.futures as cf

VERIF = os.path.dirname(os.path.dirname(os.path.abspath(__file__)))
REPO = os.environ.get("BW_REPO", "/repo")

def run_one(e):
    tmp = tempfile.mkdtemp(prefix="bwself-")
    try:
        scratch = os.path.join(tmp, "repo")
        subprocess.run(["rsync", "-a", "--exclude", ".git", REPO + "/", scratch + "/"], check=True)
        edits = e.get("edits") or [e]
        for ed in edits:
            path = os.path.join(scratch, ed["file"])
            src = open(path).read()
            if ed["old"] not in src:
                return (e["id"], "skipped", "anchor text not found in " + ed["file"])
            n = ed.get("count", 1)
            idx = -1
            for _ in range(n):
                idx = src.find(ed["old"], idx + 1)
                if idx < 0:
                    return (e["id"], "skipped", "occurrence %d not found" % n)
            src = src[:idx] + ed["new"] + src[idx + len(ed["old"]):]
            open(path, "w").write(src)
        vdir = os.path.join(tmp, "verif")
        os.makedirs(os.path.join(vdir, "evidence"))
        shutil.copy(os.path.join(VERIF, "known_findings.json"), vdir)
        env = dict(os.environ, VERIF_DIR=vdir)
        p = subprocess.run([os.environ.get("BWCHECK", os.path.join(VERIF, "bin/bwcheck")), "check", "-property", e["property"], "-repo", scratch],
                           capture_output=True, text=True, env=env)
        out = p.stdout + p.stderr
        if p.returncode == 2:
            return (e["id"], "FAIL", "variant does not load/type-check or checker crashed: " + out.strip()[-400:])
        viol = [l for l in out.splitlines() if " rule=" in l and " kind=" in l]
        if e.get("expect", "") == "":
            if p.returncode == 0:
                return (e["id"], "ok", "negative control: silent")
            return (e["id"], "FAIL", "negative control raised: " + "\n".join(viol)[:600])
        hits = [l for l in viol if ("rule=%s " % e["rule"]) in l and e["expect"] in l]
        if p.returncode == 1 and hits:
            return (e["id"], "ok", hits[0].strip()[:200])
        return (e["id"], "FAIL", "expected rule %s naming %r; exit=%d; got: %s" % (e["rule"], e["expect"], p.returncode, "\n".join(viol)[:600]))
    finally:
        shutil.rmtree(tmp, ignore_errors=True)

def main():
    ap = argparse.ArgumentParser()
    ap.add_argument("-j", type=int, default=4)
    ap.add_argument("-k", default="")
    ap.add_argument("--rule", default="")
    ap.add_argument("--property", default="")
    ap.add_argument("--json", default="")
    a = ap.parse_args()
    corpus = []
    d = os.path.join(VERIF, "selftest")
    for f in sorted(os.listdir(d)):
        if f.endswith(".json"):
            corpus += json.load(open(os.path.join(d, f)))
    sel = [e for e in corpus if a.k in e["id"] and (not a.rule or e["rule"] == a.rule) and (not a.property or e["property"] == a.property)]
    res = []
    with cf.ThreadPoolExecutor(max_workers=a.j) as ex:
        for r in ex.map(run_one, sel):
            print("%-8s %-40s %s" % (r[1], r[0], r[2]), flush=True)
            res.append(r)
    nf = sum(1 for r in res if r[1] == "FAIL")
    print("selftest: %d variants, %d ok, %d skipped, %d FAILED" % (len(res), sum(1 for r in res if r[1] == "ok"), sum(1 for r in res if r[1] == "skipped"), nf))
    if a.json:
        json.dump([{"id": r[0], "result": r[1], "detail": r[2]} for r in res], open(a.json, "w"), indent=1)
    sys.exit(1 if nf else 0)

if __name__ == "__main__":
    main()
