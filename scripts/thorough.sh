#!/bin/bash
# Thorough tier of one property: the rules with the widened scope, then the
# both-ways validation of the checker on seeded variants of the current tree
# (reported separately; never part of the property verdict).
cd "$(dirname "$0")/.."
id=$1
bin/bwcheck check -property "$id" -tier thorough
rc=$?
echo "---- checker self-validation (seeded variants of the current tree; informational) ----"
scripts/selftest.py --property "$id" -j 8 | tail -n 40 || true
exit $rc
