#!/bin/bash
# Applies a seeded change to /repo, runs every registered quick check against it (evidence to a temp dir), undoes it.
# usage: eval_mutant.sh <patch.diff> [property ids...]   (default: all)
set -u
P=$(readlink -f "$1"); shift
V=/verif
props=${*:-$($V/bin/bwcheck list)}
tmp=$(mktemp -d /tmp/bwev-XXXXXX); mkdir -p $tmp/evidence; cp $V/known_findings.json $tmp/
git -C /repo apply "$P" || { echo "apply failed"; exit 2; }
trap 'git -C /repo checkout -q -- .; rm -rf $tmp' EXIT
for p in $props; do
  ( VERIF_DIR=$tmp $V/bin/bwcheck check -property $p > $tmp/$p.out 2>&1; echo "$p exit=$?" > $tmp/$p.rc ) &
  while [ $(jobs -r | wc -l) -ge 6 ]; do sleep 0.2; done
done
wait
for p in $props; do
  rc=$(cat $tmp/$p.rc)
  case "$rc" in *exit=0) ;; *) echo "$rc"; grep " rule=" $tmp/$p.out | cut -c1-260 | head -4;; esac
done
echo "eval done"
