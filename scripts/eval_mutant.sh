#!/bin/bash
# Applies a seeded change to /repo, runs every registered check against it in one process (bwcheck checkall; evidence to a
# temp dir so the committed evidence is not disturbed), undoes the change.
# usage: eval_mutant.sh <patch.diff>
set -u
P=$(readlink -f "$1"); shift
V=/verif
tmp=$(mktemp -d /tmp/bwev-XXXXXX); mkdir -p $tmp/evidence; cp $V/known_findings.json $tmp/
git -C /repo apply "$P" || { echo "apply failed"; rm -rf $tmp; exit 2; }
trap 'git -C /repo checkout -q -- .; rm -rf $tmp' EXIT
VERIF_DIR=$tmp $V/bin/bwcheck checkall -repo /repo > $tmp/all.out 2>&1
grep -E "^C[0-9]+ exit=[12]| rule=" $tmp/all.out | grep -v KNOWN-FINDING | cut -c1-300
echo "eval done"
