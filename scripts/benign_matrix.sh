#!/bin/bash
# Runs every registered check against each behaviour-preserving refactoring under /verif/benign (applied to a scratch
# copy of /repo's current tree; /repo itself is not touched). Every one must stay silent. Writes benign/RESULTS.md.
# usage: benign_matrix.sh [id-prefix]
cd /verif
src=${BW_REPO:-/repo}
out=benign/RESULTS.md
echo "| refactoring | what it does | checks that fire |" > $out.tmp
echo "|---|---|---|" >> $out.tmp
# with an id prefix: keep the rows of the other ids from the existing table
if [ -n "${1:-}" ] && [ -f $out ]; then grep "^| r" $out | grep -v "^| $1" >> $out.tmp; fi
fail=0
for d in benign/*/; do
  id=$(basename $d)
  [ -f $d/patch.diff ] || continue
  if [ -n "${1:-}" ] && [[ "$id" != $1* ]]; then continue; fi
  res=$(scripts/eval_mutant_scratch.sh $src $d/patch.diff 2>&1)
  rules=$(echo "$res" | grep -v KNOWN-FINDING | grep -o 'rule=[A-Za-z0-9]* kind=[a-z]*' | sort -u | sed 's/rule=//; s/ kind=violation//; s/ kind=undecided/(undecided)/' | tr '\n' ' ')
  if echo "$res" | grep -q "apply failed"; then rules="(patch no longer applies)"; fi
  what=$(grep -v '^#' $d/README.md | grep -v '^\s*$' | head -1 | cut -c1-160 | tr '|' '/')
  if [ -z "$rules" ]; then rules="silent"; else fail=1; fi
  echo "| $id | $what | $rules |" >> $out.tmp
  echo "$id: $rules"
done
mv $out.tmp $out
exit $fail
