# Environment for building and running the checker offline.
export PATH=/opt/veriftools/go1.26.8/bin:$PATH
export GOTOOLCHAIN=local GOPROXY=off GOSUMDB=off GOFLAGS=-mod=vendor
unset GOWORK
