#!/bin/bash
# Runs the pinned baseline suite of /repo (guard off) the way BASELINE.json does.
# usage: repo_test.sh [repo-dir]
set -u
R=${1:-/repo}
cd "$R" || exit 2
export GOFLAGS=-mod=mod GOPROXY=off
unset GOWORK
go test -vet=off -count=1 -timeout 25m ./... 2>&1 | grep -v 'no test files'
exit ${PIPESTATUS[0]}
