#!/usr/bin/env python3
"""Imports a confirmed seeded change from a sub-agent's scratch worktree into /verif/seeded/<Cxx-mN>/.
usage: import_mutant.py <Cxx> <mN> <demo-dest-relative-path> [extra go test args]  (run only after confirm_mutant.sh printed CONFIRMED)"""
import os, shutil, json, re, sys
p, m, d = sys.argv[1:4]
extra = (' ' + ' '.join(sys.argv[4:])) if len(sys.argv) > 4 else ''
src = '/tmp/wt/%s/mutants/%s' % (p, m)
dst = '/verif/seeded/%s-%s' % (p, m)
os.makedirs(dst, exist_ok=True)
shutil.copy(src + '/patch.diff', dst + '/patch.diff')
shutil.copy(src + '/demo_test.go', dst + '/demo_test.go')
shutil.copy(src + '/README.md', dst + '/agent_README.md')
rd = open(src + '/README.md').read()
paras = [x.strip() for x in re.split(r'\n\s*\n', rd)]
pick = [x for x in paras if re.search(r'manifest|needs|Needs|trigger', x)]
txt = re.sub(r'\s+', ' ', ' '.join(pick[:2]) if pick else (paras[1] if len(paras) > 1 else ''))[:700]
meta = {"id": "%s-%s" % (p, m), "property": p,
        "source": "independent sub-agent given only the property text and a scratch worktree (later round, told which earlier changes not to repeat)",
        "needs_to_manifest": txt + ' (full text: agent_README.md)',
        "demo": {"file": "demo_test.go", "copy_to": d, "run": "GOFLAGS=-mod=mod GOPROXY=off go test -vet=off -count=1%s ./%s/" % (extra, os.path.dirname(d))},
        "confirmed": {"by": "scripts/confirm_mutant.sh in the scratch worktree", "build": "ok", "existing_suite_with_patch": "pass", "demo_with_patch": "fails", "demo_without_patch": "passes"}}
json.dump(meta, open(dst + '/meta.json', 'w'), indent=1)
print("imported", dst)
