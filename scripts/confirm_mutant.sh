#!/bin/bash
# Confirms a candidate seeded change in a scratch worktree: builds, passes the existing suite,
# demo fails with the patch and passes without it.
# usage: confirm_mutant.sh <worktree> <mutant-dir> <demo-dest-relative-path> [go test args for the demo...]
set -u
WT=$1; M=$2; DEST=$3; shift 3
export GOFLAGS=-mod=mod GOPROXY=off
cd "$WT" || exit 2
git checkout -q -- . ; rm -f "$DEST"
git apply "$M/patch.diff" || { echo "RESULT apply-failed"; exit 1; }
go build ./... >/tmp/cm_build.log 2>&1 || { echo "RESULT build-failed"; tail -5 /tmp/cm_build.log; git checkout -q -- .; exit 1; }
pkgs=$(go list ./... | grep -v '/mutants')
go test -vet=off -count=1 $pkgs >/tmp/cm_suite.log 2>&1; suite=$?
cp "$M/demo_test.go" "$DEST"
pkgdir=./$(dirname "$DEST")
timeout 300 go test -vet=off -count=1 "$@" "$pkgdir" >/tmp/cm_demo_with.log 2>&1; with=$?
git checkout -q -- .
timeout 300 go test -vet=off -count=1 "$@" "$pkgdir" >/tmp/cm_demo_without.log 2>&1; without=$?
rm -f "$DEST"
echo "RESULT suite_exit=$suite demo_with_patch_exit=$with demo_without_patch_exit=$without"
[ $suite -eq 0 ] && [ $with -ne 0 ] && [ $without -eq 0 ] && echo CONFIRMED || { echo NOT-CONFIRMED; grep -v '^ok' /tmp/cm_suite.log | head -5; tail -5 /tmp/cm_demo_without.log; }
