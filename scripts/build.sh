#!/bin/bash
# Builds /verif/bin/bwcheck from the vendored checker module (offline).
set -e
cd "$(dirname "$0")/.."
. scripts/env.sh
mkdir -p bin evidence/replay
(cd checker && go build -o ../bin/bwcheck .)
echo "built bin/bwcheck"
