#!/bin/bash
# Like eval_mutant.sh but on a scratch copy of a clean worktree (does not touch /repo). For development while /repo is busy.
# usage: eval_mutant_scratch.sh <clean-tree> <patch.diff>
set -u
CLEAN=$1; P=$(readlink -f "$2"); shift 2
V=/verif
tmp=$(mktemp -d /tmp/bwevs-XXXXXX); mkdir -p $tmp/evidence $tmp/repo; cp $V/known_findings.json $tmp/
rsync -a --exclude .git --exclude mutants "$CLEAN"/ $tmp/repo/
(cd $tmp/repo && patch -p1 -s < "$P") || { echo "apply failed"; rm -rf $tmp; exit 2; }
trap 'rm -rf $tmp' EXIT
VERIF_DIR=$tmp ${BWCHECK:-$V/bin/bwcheck} checkall -repo $tmp/repo > $tmp/all.out 2>&1
grep -E "^C[0-9]+ exit=[12]| rule=" $tmp/all.out | grep -v KNOWN-FINDING | cut -c1-260
echo "eval done"
