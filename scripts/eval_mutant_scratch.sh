#!/bin/bash
# Like eval_mutant.sh but on a scratch copy of a clean worktree (does not touch /repo). For development while /repo is busy.
# usage: eval_mutant_scratch.sh <clean-tree> <patch.diff> [property ids...]
set -u
CLEAN=$1; P=$(readlink -f "$2"); shift 2
V=/verif
props=${*:-$($V/bin/bwcheck list)}
tmp=$(mktemp -d /tmp/bwevs-XXXXXX); mkdir -p $tmp/evidence $tmp/repo; cp $V/known_findings.json $tmp/
rsync -a --exclude .git --exclude mutants "$CLEAN"/ $tmp/repo/
(cd $tmp/repo && patch -p1 -s < "$P") || { echo "apply failed"; rm -rf $tmp; exit 2; }
trap 'rm -rf $tmp' EXIT
for p in $props; do
  ( VERIF_DIR=$tmp $V/bin/bwcheck check -repo $tmp/repo -property $p > $tmp/$p.out 2>&1; echo "$p exit=$?" > $tmp/$p.rc ) &
  while [ $(jobs -r | wc -l) -ge 6 ]; do sleep 0.2; done
done
wait
for p in $props; do
  rc=$(cat $tmp/$p.rc)
  case "$rc" in *exit=0) ;; *) echo "$rc"; grep " rule=" $tmp/$p.out | grep -v KNOWN | cut -c1-260 | head -4;; esac
done
echo "eval done"
