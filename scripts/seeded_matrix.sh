#!/bin/bash
# Runs every registered quick check against every seeded change under /verif/seeded (applied to /repo, undone right after)
# and records which rules report it. Writes seeded/<id>/detection.txt and seeded/MATRIX.md.
cd /verif
out=seeded/MATRIX.md
echo "| seeded change | breaks | reported by (property: rules) |" > $out.tmp
echo "|---|---|---|" >> $out.tmp
# with an id prefix: keep the rows of the other ids from the existing table
if [ -n "${1:-}" ] && [ -f $out ]; then grep "^| C" $out | grep -v "^| $1" >> $out.tmp; fi
for d in seeded/*/; do
  id=$(basename $d)
  [ -f $d/patch.diff ] || continue
  if [ -n "${1:-}" ] && [[ "$id" != $1* ]]; then continue; fi
  git -C /repo checkout -q -- .
  res=$(scripts/eval_mutant.sh $d/patch.diff 2>&1)
  echo "$res" > $d/detection.txt
  rules=$(echo "$res" | grep -v KNOWN-FINDING | grep -o 'rule=[A-Za-z0-9]* kind=[a-z]*' | sort | uniq -c | awk '{print $2" "$3}' | sed 's/rule=//; s/ kind=violation//; s/ kind=undecided/(undecided)/' | tr '\n' ' ')
  props=$(echo "$res" | grep -o '^C[0-9]* exit=[12]' | cut -d' ' -f1 | tr '\n' ' ')
  prop=$(python3 -c "import json;print(json.load(open('$d/meta.json'))['property'])")
  if [ -z "$rules" ]; then rules="**not detected**"; fi
  echo "| $id | $prop | $props: $rules |" >> $out.tmp
  python3 - "$d" "$props" "$rules" <<'PY'
import json,sys
d,props,rules=sys.argv[1],sys.argv[2],sys.argv[3]
m=json.load(open(d+'/meta.json'))
m['checks_run']='scripts/eval_mutant.sh: git -C /repo apply patch.diff; every registered quick check; git -C /repo checkout -- .'
m['detected_by_properties']=props.split()
m['detected_by_rules']=[r for r in rules.split() if not r.startswith('**')]
m['detected']=bool(m['detected_by_rules'])
json.dump(m,open(d+'/meta.json','w'),indent=1)
PY
done
git -C /repo checkout -q -- .
mv $out.tmp $out
echo MATRIXDONE
