package main

import (
	"fmt"
	"go/constant"
	"go/token"
	"go/types"
	"sort"
	"strings"

	"golang.org/x/tools/go/ssa"
)

// Rules added after the first round of seeded changes from independent agents (DESIGN.md §0, "what the seeded changes taught").

// ---- S1x bucket removal is guarded by the emptiness of that same bucket ---------------------------------

func ruleS1x(c *Ctx) {
	c.Rule("S1x", "a whole index bucket is dropped only when that very bucket is empty: every delete(m.F, k) on a bucket index in RemoveTriples is dominated by len(m.F[k]) == 0 for the same field and key, and a newly created graph is a freshly constructed value (never a recycled one)", 3)
	a := c.storeAnchors()
	if a == nil {
		return
	}
	owner, fields := c.indexOwner(a)
	if owner == nil {
		c.undecided("index owner", token.NoPos, "not found")
		return
	}
	rem := methodByName(c, owner, "RemoveTriples")
	if rem == nil {
		c.undecided("RemoveTriples", token.NoPos, "not found")
		return
	}
	n := 0
	walkHelpers(rem, 3, func(inFn *ssa.Function, in ssa.Instruction, _ ssa.Instruction) {
		fi := c.fi(inFn)
		call, ok := in.(*ssa.Call)
		if !ok || !isBuiltinCall(&call.Call, "delete") {
			return
		}
		f := fieldOfLoad(call.Call.Args[0])
		if f == nil || !fields[f] {
			return
		}
		if _, nested := f.Type().Underlying().(*types.Map).Elem().Underlying().(*types.Map); !nested {
			return
		}
		n++
		key := "RemoveTriples drops a bucket of " + f.Name() + " only when it is empty"
		guarded := false
		for _, ft := range fi.factsAt(in.Block()) {
			bo, ok := ft.Cond.(*ssa.BinOp)
			if !ok || bo.Op != token.EQL || !ft.Truth {
				continue
			}
			if k, isC := constInt(bo.Y); !isC || k != 0 {
				continue
			}
			lc, ok := bo.X.(*ssa.Call)
			if !ok || !isBuiltinCall(&lc.Call, "len") {
				continue
			}
			lk, ok := lc.Call.Args[0].(*ssa.Lookup)
			if !ok {
				continue
			}
			if fieldOfLoad(lk.X) == f && c.term(lk.Index) == c.term(call.Call.Args[1]) {
				guarded = true
			}
		}
		c.check(guarded, key, in.Pos(), "delete(m."+f.Name()+", k) under len(m."+f.Name()+"[k]) == 0", fmt.Sprintf("the bucket of %s is deleted at %s without testing that this same bucket is empty (the test looks at another index or key): removing one triple drops the other triples that share the bucket from every lookup through %s", f.Name(), c.pos(in.Pos()), f.Name()))
	})
	if n < 3 {
		c.undecided("bucket removals", rem.Pos(), "only %d bucket removals found", n)
	}
	// NewGraph registers a freshly constructed graph
	for _, st := range a.storeImpls {
		if len(mapFields(st)) == 0 {
			continue
		}
		ng := methodByName(c, st, "NewGraph")
		if ng == nil {
			continue
		}
		fresh := true
		nmu := 0
		allInstrs(ng, func(in ssa.Instruction) {
			mu, ok := in.(*ssa.MapUpdate)
			if !ok {
				return
			}
			nmu++
			v := mu.Value
			if mi, ok := v.(*ssa.MakeInterface); ok {
				v = mi.X
			}
			if !c.freshValue(ng, v) {
				fresh = false
			}
		})
		c.check(fresh && nmu > 0, funcName(ng)+" registers a freshly constructed graph", ng.Pos(), "the value stored under the new name is allocated in this call", "NewGraph registers a value that was not constructed in this call (a cached or recycled graph): a re-created graph can start with another graph's triples")
		// DeleteGraph and Graph must not keep references to graphs outside the namespace map
		for _, mname := range []string{"DeleteGraph", "Graph", "NewGraph"} {
			m := methodByName(c, st, mname)
			if m == nil {
				continue
			}
			allInstrs(m, func(in ssa.Instruction) {
				s, ok := in.(*ssa.Store)
				if !ok {
					return
				}
				fa, ok := s.Addr.(*ssa.FieldAddr)
				if !ok || namedOf(fa.X.Type()) != st {
					return
				}
				if _, fresh := fa.X.(*ssa.Alloc); fresh {
					return
				}
				c.bad(funcName(m)+" writes store field "+fieldName(fa.X.Type(), fa.Field), in.Pos(), "%s stores into field %s of the store: graph handles or names kept outside the namespace map can resurrect dropped graphs or bypass the presence test", funcName(m), fieldName(fa.X.Type(), fa.Field))
			})
		}
	}
}

// ---- H1x a varint is hashed whole ------------------------------------------------------------------------

func ruleH1x(c *Ctx) {
	c.Rule("H1x", "a varint-encoded value enters a hash whole: the bytes of a PutVarint/PutUvarint buffer that are written to the hash input are the whole buffer or a prefix whose length is derived from the call's result, never a shorter constant prefix; the buffer is freshly made (not pooled or reused without clearing)", 2)
	n := 0
	for _, fn := range c.hashFuncs() {
		allInstrs(fn, func(in ssa.Instruction) {
			call, ok := in.(*ssa.Call)
			if !ok || !(isCallTo(&call.Call, "encoding/binary", "PutVarint") || isCallTo(&call.Call, "encoding/binary", "PutUvarint")) {
				return
			}
			n++
			key := funcName(fn) + " hashes its varint whole"
			buf := call.Call.Args[0]
			total := bufLen(buf)
			var probs []string
			if total < 0 {
				probs = append(probs, "the varint buffer is not a fresh make([]byte, K): "+truncate(c.term(buf), 60))
			}
			// uses of the buffer (or re-slices of it) as argument of Write
			var visit func(v ssa.Value, d int)
			visit = func(v ssa.Value, d int) {
				if d > 3 || v.Referrers() == nil {
					return
				}
				for _, r := range *v.Referrers() {
					switch x := r.(type) {
					case *ssa.Slice:
						if x.X != v {
							continue
						}
						if x.High != nil {
							if k, isC := constInt(x.High); isC {
								if total >= 0 && k < total && k < 10 {
									// constant prefix shorter than a full varint: only fine if the written part is the whole buffer
									for _, r2 := range *x.Referrers() {
										if w, ok := r2.(*ssa.Call); ok && (isCallTo(&w.Call, "bytes", "Write")) {
											probs = append(probs, fmt.Sprintf("only the first %d bytes of the %d-byte varint buffer are hashed at %s: values whose encoding is longer lose their high bits and collide", k, total, c.pos(w.Pos())))
										}
									}
								}
							} else if !strings.Contains(c.term(x.High), "binary.Put") {
								probs = append(probs, "the hashed prefix length is not derived from the encoder's result")
							} else if why := c.prefixMayTruncate(x.High, call); why != "" {
								probs = append(probs, why)
							}
						}
						visit(x, d+1)
					}
				}
			}
			visit(buf, 0)
			// a local array sliced for the encoder: every other slice of the same array is a view of the same bytes
			if sl, ok := buf.(*ssa.Slice); ok {
				if al, ok := sl.X.(*ssa.Alloc); ok {
					visit(al, 0)
				}
			}
			if len(probs) > 0 {
				c.bad(key, in.Pos(), "%s", strings.Join(uniq(probs), "; "))
			} else {
				c.ok(key, in.Pos(), "buffer of %d bytes made in the call; hashed whole or up to a length derived from the encoder's result", total)
			}
		})
	}
	if n < 2 {
		c.undecided("varint sites in identity methods", token.NoPos, "only %d found", n)
	}
}

// prefixMayTruncate: the length hv of the hashed prefix is built from the encoder's result n and constants; it must
// never be smaller than n. phi(n, K) is fine when the K edge is taken under n < K (a lower bound: max), wrong when it
// is taken under n > K (an upper bound: min cuts long encodings); the builtins max/min likewise.
func (c *Ctx) prefixMayTruncate(hv ssa.Value, enc *ssa.Call) string {
	switch x := hv.(type) {
	case *ssa.Call:
		if isBuiltinCall(&x.Call, "min") {
			return "the hashed prefix length is min(…) of the encoder's result and a constant: encodings longer than the constant are cut and large magnitudes collide"
		}
	case *ssa.Phi:
		for i, e := range x.Edges {
			k, isC := constInt(e)
			if !isC {
				continue
			}
			pb := x.Block().Preds[i]
			facts := c.fi(x.Parent()).factsAt(pb)
			if iff, ok := pb.Instrs[len(pb.Instrs)-1].(*ssa.If); ok && len(pb.Succs) == 2 && pb.Succs[0] != pb.Succs[1] {
				facts = append(append([]Fact{}, facts...), expandFact(Fact{iff.Cond, pb.Succs[0] == x.Block()})...)
			}
			for _, ft := range facts {
				bo, ok := ft.Cond.(*ssa.BinOp)
				if !ok || bo.X != ssa.Value(enc) {
					continue
				}
				if kk, isK := constInt(bo.Y); !isK || kk != k {
					continue
				}
				// the constant replaces n on this edge: n > K (or >=) true, or n <= K (or <) false
				if ((bo.Op == token.GTR || bo.Op == token.GEQ) && ft.Truth) || ((bo.Op == token.LEQ || bo.Op == token.LSS) && !ft.Truth) {
					return fmt.Sprintf("the hashed prefix length is capped at %d when the encoder wrote more: encodings longer than %d bytes are cut and large magnitudes collide", k, k)
				}
			}
		}
	}
	return ""
}

// ---- H3x a pooled buffer is not released before its last use -----------------------------------------------

func ruleH3x(c *Ctx) {
	c.Rule("H3x", "a pooled buffer is given back only after the hash has been computed from it: every sync.Pool.Put in an identity method is deferred, or no use of the buffer (or of bytes aliasing it) follows it", 3)
	n := 0
	for _, fn := range c.hashMethods() {
		fi := c.fi(fn)
		allInstrs(fn, func(in ssa.Instruction) {
			cc := callCommon(in)
			if cc == nil || !isCallTo(cc, "sync", "Put") {
				return
			}
			n++
			key := funcName(fn) + " returns its pooled buffer last"
			if _, isDefer := in.(*ssa.Defer); isDefer {
				c.ok(key, in.Pos(), "Put is deferred")
				return
			}
			// non-deferred: no later use of the pooled value
			var pooled ssa.Value
			if mi, ok := cc.Args[1].(*ssa.MakeInterface); ok {
				pooled = mi.X
			} else {
				pooled = cc.Args[1]
			}
			late := ""
			var uses func(v ssa.Value, d int)
			uses = func(v ssa.Value, d int) {
				if d > 3 || v.Referrers() == nil {
					return
				}
				for _, r := range *v.Referrers() {
					if r == in {
						continue
					}
					if fi.instrDominates(in, r) {
						late = c.pos(r.Pos())
					}
					if rv, ok := r.(ssa.Value); ok {
						if call, isCall := r.(*ssa.Call); isCall && !isCallTo(&call.Call, "bytes", "Bytes") {
							continue
						}
						uses(rv, d+1)
					}
				}
			}
			uses(pooled, 0)
			c.check(late == "", key, in.Pos(), "nothing uses the buffer after Put", "the buffer is put back into the pool at "+c.pos(in.Pos())+" but its bytes are still used at "+late+": another goroutine can overwrite them before they are hashed")
		})
	}
	if n < 3 {
		c.undecided("pool Put sites in identity methods", token.NoPos, "only %d found", n)
	}
}

// ---- P3b fully specified clause over several graphs ------------------------------------------------------------

func ruleP3b(c *Ctx) {
	c.Rule("P3b", "a fully specified clause is feasible as soon as one listed graph holds the triple: in simpleExist the 'unfeasible' result starts true and is only ever cleared (assigned the constant false) inside the loop over the graphs — it is never assigned a value computed from a single graph's answer", 1)
	fn := c.mustFunc("bql/planner", "simpleExist")
	if fn == nil {
		return
	}
	var bad []string
	n := 0
	for _, r := range c.returnsOf(fn) {
		rv := resultValues(r)
		if !c.mayBeNilError(fn, rv[len(rv)-1], r) {
			continue
		}
		n++
		// the sources of the flag: through phis, negation, and the results of same-package helpers
		var leaves []ssa.Value
		seenL := map[ssa.Value]bool{}
		var src func(v ssa.Value, in *ssa.Function, d int)
		src = func(v ssa.Value, in *ssa.Function, d int) {
			if seenL[v] || d > 8 {
				return
			}
			seenL[v] = true
			switch x := v.(type) {
			case *ssa.Phi:
				for _, e := range x.Edges {
					src(e, in, d+1)
				}
				return
			case *ssa.UnOp:
				if x.Op == token.NOT {
					src(x.X, in, d+1)
					return
				}
			case *ssa.Extract:
				if call, ok := x.Tuple.(*ssa.Call); ok {
					if callee := helperCallee(in, &call.Call); callee != nil {
						for _, r2 := range c.returnsOf(callee) {
							if rv2 := resultValues(r2); x.Index < len(rv2) {
								src(rv2[x.Index], callee, d+1)
							}
						}
						return
					}
				}
			}
			leaves = append(leaves, v)
		}
		src(rv[0], fn, 0)
		for _, l := range leaves {
			k, ok := l.(*ssa.Const)
			if !ok || k.Value == nil || k.Value.Kind() != constant.Bool {
				bad = append(bad, fmt.Sprintf("the flag returned at %s can take the computed value %s", c.pos(r.Pos()), truncate(c.term(l), 60)))
			}
		}
	}
	if n == 0 {
		c.undecided("simpleExist feasibility flag", fn.Pos(), "no success return found")
		return
	}
	c.check(len(bad) == 0, "simpleExist feasibility flag is monotone over the graphs", fn.Pos(), "the flag is a join of the constants true (initial) and false (some graph has the triple)", strings.Join(uniq(bad), "; ")+": the last graph listed decides, so a triple held by an earlier graph makes the whole pattern unresolvable")
}

// ---- I1 graph resolution before execution -----------------------------------------------------------------------

func ruleI1(c *Ctx) {
	c.Rule("I1", "a statement naming a graph that does not exist is rejected before anything executes: Statement.Init resolves all three graph lists and returns the store's error for each failed lookup at once", 3)
	fn := c.mustFunc("bql/semantic", "Statement.Init")
	if fn == nil {
		return
	}
	lists := map[string]bool{}
	n := 0
	// errEnds: in function f, the error value ev ends f with that error — it is returned as it is (return g(...)), or
	// returned on the edge where it is known non-nil
	errEnds := func(f *ssa.Function, ev ssa.Value) bool {
		ffi := c.fi(f)
		for _, r := range c.returnsOf(f) {
			rv := resultValues(r)
			if len(rv) == 0 || rv[len(rv)-1] != ev {
				continue
			}
			if _, isCall := ev.(*ssa.Call); isCall && r.Block() == ev.(*ssa.Call).Block() {
				return true // return helper(...): whatever it reports is the result
			}
			for _, ft := range ffi.factsAt(r.Block()) {
				if bo, ok := ft.Cond.(*ssa.BinOp); ok && bo.X == ev && isNilConst(bo.Y) && (bo.Op == token.NEQ) == ft.Truth {
					return true
				}
			}
		}
		return false
	}
	errOf := func(call *ssa.Call) ssa.Value {
		if call.Call.Signature().Results().Len() == 1 {
			return call
		}
		for _, r := range *call.Referrers() {
			if ex, ok := r.(*ssa.Extract); ok && ex.Index == call.Call.Signature().Results().Len()-1 {
				return ex
			}
		}
		return nil
	}
	walkHelpers(fn, 2, func(inFn *ssa.Function, in ssa.Instruction, top ssa.Instruction) {
		call, ok := in.(*ssa.Call)
		if !ok || !call.Call.IsInvoke() || call.Call.Method.Name() != "Graph" || !isNamed(call.Call.Value.Type(), modPath+"/storage", "Store") {
			return
		}
		n++
		t := c.term(call.Call.Args[1])
		for _, l := range []string{"graphNames", "inputGraphNames", "outputGraphNames"} {
			if strings.Contains(t, "."+l+"[") {
				lists[l] = true
			}
		}
		key := fmt.Sprintf("Statement.Init lookup #%d fails the statement", n)
		// the non-nil edge of this call's error returns it — from the helper it sits in, and from Init at the call of that helper
		okRet := false
		if ev := errOf(call); ev != nil && errEnds(inFn, ev) {
			okRet = true
			if inFn != fn {
				tc, isCall := top.(*ssa.Call)
				okRet = isCall && errOf(tc) != nil && errEnds(fn, errOf(tc))
			}
		}
		c.check(okRet, key, in.Pos(), "err != nil returns that error immediately", "the error of the graph lookup at "+c.pos(in.Pos())+" does not end Init with that error: the statement goes on to execute against the graphs that did resolve")
	})
	var missing []string
	for _, l := range []string{"graphNames", "inputGraphNames", "outputGraphNames"} {
		if !lists[l] {
			missing = append(missing, l)
		}
	}
	c.check(len(missing) == 0, "Statement.Init resolves every graph list", fn.Pos(), "graphNames, inputGraphNames and outputGraphNames are all looked up", fmt.Sprintf("Init does not look up %v", missing))
}

// ---- P9c construct emits for every row -------------------------------------------------------------------------

type sentState struct{ sent bool }

func ruleP9c(c *Ctx) {
	c.Rule("P9c", "CONSTRUCT/DECONSTRUCT instantiate the template once per solution row: inside the row loop of constructPlan.Execute every path that reaches the next iteration has sent at least one triple to the writer, and no condition other than the template's shape and error tests guards the sends", 1)
	fn := c.mustFunc("bql/planner", "constructPlan.Execute")
	if fn == nil {
		return
	}
	// the row loop: the innermost loop containing a call to processConstructClause — in Execute itself or in the
	// same-package helper the template instantiation was moved to
	var anchor ssa.Instruction
	walkHelpers(fn, 2, func(inFn *ssa.Function, in ssa.Instruction, _ ssa.Instruction) {
		if call, ok := in.(*ssa.Call); ok && call.Call.StaticCallee() != nil && fnName(call.Call.StaticCallee()) == "processConstructClause" && inFn.Parent() == nil {
			anchor = in
		}
	})
	if anchor != nil {
		fn = anchor.Parent()
	}
	fi := c.fi(fn)
	if anchor == nil {
		c.undecided("constructPlan row loop", fn.Pos(), "call to processConstructClause not found")
		return
	}
	// sends between the anchor and the back edge: must-pass — no path from the anchor to a block that jumps back to a
	// dominator of the anchor (a loop header) without a Send
	reachNoSend := map[int]bool{}
	var stack []int
	startIdx := anchor.Block().Index
	hasSendAfter := func(b *ssa.BasicBlock, from ssa.Instruction) bool {
		seen := from == nil
		for _, in := range b.Instrs {
			if in == from {
				seen = true
				continue
			}
			if !seen {
				continue
			}
			if _, ok := in.(*ssa.Send); ok {
				return true
			}
		}
		return false
	}
	// an inner loop whose body sends is taken to send (it iterates over the reification triples / the extra pairs, which
	// are non-empty by construction); its blocks count as sending blocks
	sendLoopBlock := map[int]bool{}
	for _, l := range fi.naturalLoops() {
		if l.blocks[anchor.Block().Index] {
			continue // the row loop itself or an enclosing one
		}
		has := false
		for bi := range l.blocks {
			for _, in := range fn.Blocks[bi].Instrs {
				if _, ok := in.(*ssa.Send); ok {
					has = true
				}
			}
		}
		if has {
			for bi := range l.blocks {
				sendLoopBlock[bi] = true
			}
		}
	}
	violated := ""
	if !hasSendAfter(anchor.Block(), anchor) {
		stack = append(stack, startIdx)
		reachNoSend[startIdx] = true
	}
	for len(stack) > 0 {
		u := stack[len(stack)-1]
		stack = stack[:len(stack)-1]
		for _, v := range fi.succs[u] {
			if v >= fi.n {
				continue
			}
			vb := fn.Blocks[v]
			// back edge to a header that dominates the anchor: an iteration ended without a send
			if fi.dominates(vb, anchor.Block()) && v != startIdx {
				violated = c.pos(fn.Blocks[u].Instrs[len(fn.Blocks[u].Instrs)-1].Pos())
				continue
			}
			if v == startIdx {
				violated = "the row loop"
				continue
			}
			if reachNoSend[v] {
				continue
			}
			if hasSendAfter(vb, nil) || sendLoopBlock[v] {
				continue
			}
			reachNoSend[v] = true
			stack = append(stack, v)
		}
	}
	// conditions guarding the sends
	extra := ""
	allInstrs(fn, func(in ssa.Instruction) {
		if _, ok := in.(*ssa.Send); !ok || !fi.dominates(anchor.Block(), in.Block()) {
			return
		}
		for _, ft := range fi.factsAt(in.Block()) {
			if !fi.dominates(anchor.Block(), ft.Cond.(ssa.Instruction).Block()) && ft.Cond.(ssa.Instruction).Block() != anchor.Block() {
				continue
			}
			t := c.term(ft.Cond)
			switch {
			case strings.Contains(t, "nil"): // error tests
			case strings.Contains(t, "PredicateObjectPairs"): // template shape
			case strings.Contains(t, "< len("), strings.Contains(t, "next(range("): // loops
			default:
				extra = truncate(t, 80)
			}
		}
	})
	switch {
	case violated != "":
		c.bad("constructPlan emits for every row", anchor.Pos(), "an iteration of the row loop can finish (%s) without sending any triple to the writer: rows are skipped, so the template is not instantiated once per solution", violated)
	case extra != "":
		c.bad("constructPlan emits for every row", anchor.Pos(), "a send to the writer is guarded by %s, which is neither an error test nor the template's shape: some rows' triples (and their fresh blank nodes) are suppressed", extra)
	default:
		c.ok("constructPlan emits for every row", anchor.Pos(), "every path through the row loop body sends at least one triple; sends are guarded only by error tests and len(pairs) > 1")
	}
}

// ---- T2 literal parser conversion table ------------------------------------------------------------------------------

func ruleT2(c *Ctx) {
	c.Rule("T2", "the literal parser converts each type with the one conversion that inverts its printer: bool -> strconv.ParseBool, int64 -> strconv.ParseInt, float64 -> strconv.ParseFloat, and builds the literal with the matching Type constant", 3)
	fn := c.mustFunc("triple/literal", "unboundBuilder.Parse")
	if fn == nil {
		return
	}
	fi := c.fi(fn)
	want := map[string]string{"bool": "ParseBool", "int64": "ParseInt", "float64": "ParseFloat"}
	got := map[string]map[string]bool{}
	allInstrs(fn, func(in ssa.Instruction) {
		call, ok := in.(*ssa.Call)
		if !ok || call.Call.StaticCallee() == nil || call.Call.StaticCallee().Pkg == nil || call.Call.StaticCallee().Pkg.Pkg.Path() != "strconv" {
			return
		}
		name := call.Call.StaticCallee().Name()
		if !strings.HasPrefix(name, "Parse") {
			return
		}
		// which type-name case dominates the call?
		for _, ft := range fi.factsAt(in.Block()) {
			bo, ok := ft.Cond.(*ssa.BinOp)
			if !ok || bo.Op != token.EQL || !ft.Truth {
				continue
			}
			if k, ok := bo.Y.(*ssa.Const); ok && k.Value != nil && k.Value.Kind() == constant.String {
				tn := constant.StringVal(k.Value)
				if got[tn] == nil {
					got[tn] = map[string]bool{}
				}
				got[tn][name] = true
			}
		}
	})
	var names []string
	for n := range want {
		names = append(names, n)
	}
	sort.Strings(names)
	for _, tn := range names {
		key := "literal type " + tn + " parsed with strconv." + want[tn]
		fs := keys(got[tn])
		c.check(len(fs) == 1 && fs[0] == want[tn], key, fn.Pos(), "only "+want[tn]+" in the "+tn+" case", fmt.Sprintf("the %s case of the literal parser calls %v: values the printer writes (e.g. -0, exponents, large magnitudes) no longer parse back to the same value", tn, fs))
	}
}

// ---- S8x / S11b / S13 driver details ---------------------------------------------------------------------------------

func ruleS8x(c *Ctx) {
	c.Rule("S8x", "driver stage details: applyGlobalTimeBounds keeps exactly the triples its checker admits (one return, of the map filled in the loop, no short cut); the latest filter groups and ranks by the same inspected predicate; the page skip is page size times page offset", 3)
	if fn := c.mustFunc("storage/memory", "applyGlobalTimeBounds"); fn != nil {
		rets := c.returnsOf(fn)
		ok := len(rets) == 1
		if ok {
			_, isMake := resultValues(rets[0])[0].(*ssa.MakeMap)
			ok = isMake
		}
		// every MapUpdate into the result is guarded only by t != nil and the checker's verdict
		fi := c.fi(fn)
		extra := ""
		nUpd := 0
		allInstrs(fn, func(in ssa.Instruction) {
			mu, isMU := in.(*ssa.MapUpdate)
			if !isMU {
				return
			}
			nUpd++
			_ = mu
			verdict := false
			for _, ft := range fi.factsAt(in.Block()) {
				t := c.term(ft.Cond)
				switch {
				case strings.Contains(t, "CheckGlobalTimeBounds(") && ft.Truth:
					verdict = true
				case strings.Contains(t, "!= nil") || strings.Contains(t, "== nil"):
				case strings.Contains(t, "next(range("):
				default:
					extra = truncate(t, 70)
				}
			}
			if !verdict {
				extra = "no checker verdict"
			}
		})
		c.check(ok && nUpd == 1 && extra == "", "applyGlobalTimeBounds keeps what the checker admits", fn.Pos(), "single return of the map filled under CheckGlobalTimeBounds(...) == true", "applyGlobalTimeBounds has an extra return, an extra condition ("+extra+") or does not return the map it fills: triples the window and kind test admit are dropped (or others kept)")
	}
	if fn := c.mustFunc("storage/memory", "latestFilter"); fn != nil {
		var keyRecv, anchorRecv string
		allInstrs(fn, func(in ssa.Instruction) {
			call, ok := in.(*ssa.Call)
			if !ok || call.Call.StaticCallee() == nil || len(call.Call.Args) != 1 {
				return
			}
			if !isNamed(call.Call.Args[0].Type(), modPath+"/triple/predicate", "Predicate") {
				return
			}
			switch call.Call.StaticCallee().Name() {
			case "PartialUUID":
				keyRecv = c.term(call.Call.Args[0])
			case "TimeAnchor":
				anchorRecv = c.term(call.Call.Args[0])
			}
		})
		c.check(keyRecv != "" && keyRecv == anchorRecv, "latestFilter groups and ranks by the inspected predicate", fn.Pos(), "PartialUUID and TimeAnchor are taken from the same value", fmt.Sprintf("the grouping key comes from %s but the anchor from %s: with the filter on the object field, triples are grouped under the wrong identifier and a later anchor of another identifier evicts them", truncate(keyRecv, 60), truncate(anchorRecv, 60)))
	}
	if fn := c.mustFunc("storage/memory", "newChecker"); fn != nil {
		lim := c.lookupFunc("storage/memory", "checker.CheckLimitAndUpdate")
		// the field decremented first in CheckLimitAndUpdate is the skip counter
		skipField := ""
		if lim != nil {
			allInstrs(lim, func(in ssa.Instruction) {
				if st, ok := in.(*ssa.Store); ok {
					if fa, ok := st.Addr.(*ssa.FieldAddr); ok {
						// the store whose block returns false afterwards
						for _, r := range c.returnsOf(lim) {
							if r.Block() == in.Block() {
								if k, ok := r.Results[0].(*ssa.Const); ok && k.Value != nil && !constant.BoolVal(k.Value) {
									skipField = fieldName(fa.X.Type(), fa.Field)
								}
							}
						}
					}
				}
			})
		}
		okMul := false
		got := ""
		allInstrs(fn, func(in ssa.Instruction) {
			st, ok := in.(*ssa.Store)
			if !ok {
				return
			}
			fa, ok := st.Addr.(*ssa.FieldAddr)
			if !ok || fieldName(fa.X.Type(), fa.Field) != skipField {
				return
			}
			got = c.term(st.Val)
			if bo, ok := st.Val.(*ssa.BinOp); ok && bo.Op == token.MUL {
				tx, ty := c.term(bo.X), c.term(bo.Y)
				if (strings.HasSuffix(tx, ".MaxElements") && strings.HasSuffix(ty, ".Offset")) || (strings.HasSuffix(ty, ".MaxElements") && strings.HasSuffix(tx, ".Offset")) {
					okMul = true
				}
			}
		})
		if skipField == "" {
			c.undecided("page skip = page size x page offset", fn.Pos(), "the skip counter of CheckLimitAndUpdate was not identified")
		} else {
			c.check(okMul, "page skip = page size x page offset", fn.Pos(), "checker."+skipField+" = MaxElements * Offset", "the number of elements skipped before a page is "+truncate(got, 60)+", not MaxElements*Offset: page k does not start where page k-1 ended (pages overlap or leave gaps)")
		}
	}
}

// ---- L3b pointer fields of a row cell are dereferenced only under a nil test --------------------------------------------

func ruleL3b(c *Ctx, rels ...string) {
	c.Rule("L3b", "a row cell carries one kind of value: a pointer field of a table.Cell (S, N, P, L, T) taken from a row is dereferenced only where that same field was tested non-nil on the path (or the value was just built with that field set)", 3)
	cell := c.mustNamed("bql/table", "Cell")
	if cell == nil {
		return
	}
	for _, fn := range c.srcFuncs(rels...) {
		fi := c.fi(fn)
		type site struct {
			pos   token.Pos
			field string
			base  string
		}
		var bad []site
		n := 0
		allInstrs(fn, func(in ssa.Instruction) {
			// deref of a loaded Cell pointer field: UnOp(*) on value loaded from FieldAddr(cell, F), or method call on it
			var ptr ssa.Value
			switch x := in.(type) {
			case *ssa.UnOp:
				if x.Op == token.MUL {
					ptr = x.X
				}
			case *ssa.Call:
				if f := x.Call.StaticCallee(); f != nil && f.Signature.Recv() != nil && len(x.Call.Args) > 0 {
					if _, isPtr := f.Signature.Recv().Type().(*types.Pointer); isPtr {
						// pointer-receiver methods on L/N/P dereference inside
						ptr = x.Call.Args[0]
					}
				}
			}
			if ptr == nil {
				return
			}
			ld, ok := ptr.(*ssa.UnOp)
			if !ok || ld.Op != token.MUL {
				return
			}
			fa, ok := ld.X.(*ssa.FieldAddr)
			if !ok || namedOf(fa.X.Type()) != cell {
				return
			}
			if _, isAlloc := fa.X.(*ssa.Alloc); isAlloc {
				return
			}
			// only cells that come out of a row lookup or a parameter/call result (not freshly built)
			baseT := c.term(fa.X)
			field := fieldName(fa.X.Type(), fa.Field)
			if u, isLoad := in.(*ssa.UnOp); isLoad && u == ld {
				return
			}
			n++
			safe := false
			for _, ft := range fi.factsAt(in.Block()) {
				bo, ok := ft.Cond.(*ssa.BinOp)
				if !ok || !isNilConst(bo.Y) {
					continue
				}
				t := c.term(bo.X)
				if t == baseT+"."+field || t == strings.TrimPrefix(baseT, "&")+"."+field {
					if (bo.Op == token.NEQ) == ft.Truth {
						safe = true
					}
				}
			}
			if !safe {
				bad = append(bad, site{in.Pos(), field, baseT})
			}
		})
		if n == 0 {
			continue
		}
		c.analysed(funcName(fn))
		key := funcName(fn) + " dereferences cell fields only after a nil test"
		if len(bad) > 0 {
			var ds []string
			for _, b := range bad {
				ds = append(ds, fmt.Sprintf("%s of %s at %s", b.field, truncate(b.base, 40), c.pos(b.pos)))
			}
			sort.Strings(ds)
			if why, ok := l3bReviewed[funcName(fn)]; ok {
				c.ok(key, fn.Pos(), "reviewed: %s", why)
			} else {
				c.bad(key, fn.Pos(), "cell field dereferenced without a dominating non-nil test of that field: %s — a cell of another kind (or a NULL from an optional clause) makes this a nil dereference", strings.Join(uniq(ds), "; "))
			}
		} else {
			c.ok(key, fn.Pos(), "%d dereference(s), each under a non-nil test of the same field", n)
		}
	}
}

// l3bReviewed: functions whose unguarded cell-field dereferences were read and found safe, one reason each.
var l3bReviewed = map[string]string{}

// ---- P4e/P4f optional clauses: operations allowed where the clause may be optional --------------------------------

// p4eAllowed: calls that processClause may make on a path where cls.Optional is not known to be false; each was read
// and keeps every left row (or only reads).
var p4eAllowed = map[string]string{
	"Specificity": "reads the clause", "HasAlias": "reads the clause", "Bindings": "reads", "HasBinding": "reads", "Trace": "tracing", "V": "tracing",
	"New":                    "triple.New builds the fully specified triple",
	"simpleExist":            "read; its flag is confined to non-optional clauses by P4(a) (known finding for the alias case)",
	"AppendTable":            "first clause / same bindings",
	"simpleFetch":            "read",
	"LeftOptionalJoin":       "the left outer join",
	"specifyClauseWithTable": "per-row specialisation; addSpecifiedData re-adds unmatched rows for optional clauses (P4c)",
	"GraphPatternClauses":    "reads the statement", "GroupBy": "reads the statement", "OrderBy": "reads the statement", "HavingExpression": "reads the statement", "Limit": "reads the statement",
	"Sprintf": "tracing", "String": "tracing",
}

func ruleP4e(c *Ctx) {
	c.Rule("P4e", "no row-dropping operation is reachable for an optional clause: in processClause every call made where cls.Optional is not known false is in the reviewed list of row-preserving operations; addSpecifiedData never reports success before it has fetched; the plan processes the clauses in statement order", 3)
	pc := c.mustFunc("bql/planner", "queryPlan.processClause")
	if pc != nil {
		fi := c.fi(pc)
		var bad []string
		n := 0
		allInstrs(pc, func(in ssa.Instruction) {
			cc := callCommon(in)
			if cc == nil {
				return
			}
			name := ""
			if cc.IsInvoke() {
				// driver calls: mutations of the store are P9's business; reads do not drop rows
				return
			} else if f := cc.StaticCallee(); f != nil {
				name = fnName(f)
				// only operations of the planner, the table and the statement can drop or keep rows
				pkg := ""
				if f.Pkg != nil {
					pkg = f.Pkg.Pkg.Path()
				}
				if pkg != modPath+"/bql/planner" && pkg != modPath+"/bql/table" {
					return
				}
			} else {
				return
			}
			knownFalse := false
			for _, ft := range fi.factsAt(in.Block()) {
				if strings.HasSuffix(c.term(ft.Cond), ".Optional") && !ft.Truth {
					knownFalse = true
				}
			}
			if knownFalse {
				return
			}
			n++
			if _, ok := p4eAllowed[name]; !ok {
				if c.isPure(cc.StaticCallee(), map[*ssa.Function]bool{}) {
					return // a function that only reads cannot drop a row
				}
				bad = append(bad, fmt.Sprintf("%s at %s", name, c.pos(in.Pos())))
			}
		})
		sort.Strings(bad)
		c.check(len(bad) == 0 && n > 5, "processClause calls only row-preserving operations for optional clauses", pc.Pos(), fmt.Sprintf("%d calls on paths where the clause may be optional, all in the reviewed list", n), fmt.Sprintf("call(s) %v are reachable for an OPTIONAL clause and are not in the reviewed list of row-preserving operations: an optional clause can filter out left rows", uniq(bad)))
	}
	if as := c.mustFunc("bql/planner", "queryPlan.addSpecifiedData"); as != nil {
		fi := c.fi(as)
		var fetch ssa.Instruction
		allInstrs(as, func(in ssa.Instruction) {
			if call, ok := in.(*ssa.Call); ok && call.Call.StaticCallee() != nil && fnName(call.Call.StaticCallee()) == "simpleFetch" {
				fetch = in
			}
		})
		bad := ""
		if fetch == nil {
			bad = "no call to simpleFetch"
		} else {
			for _, r := range c.returnsOf(as) {
				if isNilConst(resultValues(r)[0]) && !fi.instrDominates(fetch, r) {
					bad = "success is returned at " + c.pos(r.Pos()) + " before the clause was fetched for this row"
				}
			}
		}
		c.check(bad == "", "addSpecifiedData never succeeds without fetching", as.Pos(), "every nil return is dominated by the simpleFetch call", bad+": the row is neither extended nor (for an optional clause) kept with NULLs — it silently disappears")
	}
	if nq := c.mustFunc("bql/planner", "newQueryPlan"); nq != nil {
		got := ""
		allInstrs(nq, func(in ssa.Instruction) {
			if st, ok := in.(*ssa.Store); ok {
				if fa, ok := st.Addr.(*ssa.FieldAddr); ok && fieldName(fa.X.Type(), fa.Field) == "clauses" {
					got = c.term(st.Val)
				}
			}
		})
		c.check(strings.Contains(got, ").GraphPatternClauses("), "the plan keeps the clauses in statement order", nq.Pos(), "queryPlan.clauses = stm.GraphPatternClauses()", "queryPlan.clauses is built from "+truncate(got, 70)+", not from the statement's clause list in written order: an OPTIONAL clause can be moved ahead of the pattern it extends and act as an inner join")
	}
}

// ---- P7b the group-key predicate has the same structure in validator and executor ----------------------------------

// acceptPaths returns, as sorted strings, the conjunctions of atomic string comparisons under which the chain of
// tests that starts at the first atom leads out through a true edge.
func (c *Ctx) acceptPaths(fn *ssa.Function, norm func(string) string) []string {
	isAtom := func(b *ssa.BasicBlock) (string, bool) {
		iff, ok := b.Instrs[len(b.Instrs)-1].(*ssa.If)
		if !ok {
			return "", false
		}
		bo, ok := iff.Cond.(*ssa.BinOp)
		if !ok || bo.Op != token.EQL || !types.Identical(bo.X.Type().Underlying(), types.Typ[types.String]) {
			return "", false
		}
		a := norm(c.term(bo.X)) + "==" + norm(c.term(bo.Y))
		if !strings.Contains(a, "Alias") && !strings.Contains(a, "Binding") {
			return "", false
		}
		return a, true
	}
	var out []string
	withClosures(fn, func(f *ssa.Function) {
		fi := c.fi(f)
		for _, b := range f.Blocks {
			if _, ok := isAtom(b); !ok {
				continue
			}
			// start blocks: atom blocks none of whose predecessors is an atom block
			start := true
			for _, p := range b.Preds {
				if _, ok := isAtom(p); ok {
					start = false
				}
			}
			if !start || !fi.reachable(b) {
				continue
			}
			var walk func(b *ssa.BasicBlock, path []string)
			walk = func(b *ssa.BasicBlock, path []string) {
				a, ok := isAtom(b)
				if !ok {
					return
				}
				for si, s := range b.Succs {
					p2 := append(append([]string{}, path...), fmt.Sprintf("%s=%v", a, si == 0))
					if _, more := isAtom(s); more {
						walk(s, p2)
					} else if si == 0 {
						sort.Strings(p2)
						out = append(out, strings.Join(p2, " & "))
					}
				}
			}
			walk(b, nil)
		}
	})
	sort.Strings(out)
	return uniq(out)
}

func ruleP7b(c *Ctx) {
	c.Rule("P7b", "validator and executor use the same predicate for 'this projection is the grouping key': the conjunctions of comparisons (entry == Alias, Alias == \"\", entry == Binding) under which each accepts are identical", 1)
	val := c.mustFunc("bql/semantic", "groupByBindingsChecker")
	exe := c.mustFunc("bql/planner", "queryPlan.projectAndGroupBy")
	if val == nil || exe == nil {
		return
	}
	norm := func(t string) string {
		switch {
		case strings.HasSuffix(t, ".Alias"):
			return "prj.Alias"
		case strings.HasSuffix(t, ".Binding"):
			return "prj.Binding"
		case t == `""`:
			return `""`
		}
		return "entry"
	}
	// restrict to conjunctions that mention the group-by entry
	filter := func(xs []string) []string {
		var out []string
		for _, x := range xs {
			if strings.Contains(x, "entry") {
				// canonical operand order
				x = strings.ReplaceAll(x, "prj.Alias==entry", "entry==prj.Alias")
				x = strings.ReplaceAll(x, "prj.Binding==entry", "entry==prj.Binding")
				x = strings.ReplaceAll(x, `""==prj.Alias`, `prj.Alias==""`)
				parts := strings.Split(x, " & ")
				sort.Strings(parts)
				out = append(out, strings.Join(parts, " & "))
			}
		}
		sort.Strings(out)
		return uniq(out)
	}
	pv, pe := filter(c.acceptPaths(val, norm)), filter(c.acceptPaths(exe, norm))
	if len(pv) == 0 || len(pe) == 0 {
		c.undecided("group key predicate structure", val.Pos(), "accepting conjunctions not found (validator %v, executor %v)", pv, pe)
		return
	}
	c.check(strings.Join(pv, " | ") == strings.Join(pe, " | "), "group key predicate: validator = executor", exe.Pos(), "both accept under {"+strings.Join(pv, " | ")+"}",
		fmt.Sprintf("the validator accepts a projection as grouping key under {%s} but the executor under {%s}: for some projection lists they disagree, so a column that is aggregated also becomes part of the key (groups split) or a key is dropped", strings.Join(pv, " | "), strings.Join(pe, " | ")))
}

// ---- P12b ORDER BY de-duplication keeps the original entries -------------------------------------------------------------

func ruleP12b(c *Ctx) {
	c.Rule("P12b", "the ORDER BY list keeps every key's direction: whatever orderByBindingsChecker writes back into Statement.orderBy are elements taken whole from the original list, in its order", 1)
	fn := c.mustFunc("bql/semantic", "orderByBindingsChecker")
	if fn == nil {
		return
	}
	n := 0
	bad := ""
	withClosures(fn, func(f *ssa.Function) {
		allInstrs(f, func(in ssa.Instruction) {
			call, ok := in.(*ssa.Call)
			if !ok || !isBuiltinCall(&call.Call, "append") || !isNamed(call.Type(), modPath+"/bql/table", "SortConfig") {
				return
			}
			// only appends whose result is stored back to the statement's orderBy
			stored := false
			for _, r := range *call.Referrers() {
				if st, ok := r.(*ssa.Store); ok {
					if fa, ok := st.Addr.(*ssa.FieldAddr); ok && fieldName(fa.X.Type(), fa.Field) == "orderBy" {
						stored = true
					}
				}
			}
			if !stored {
				return
			}
			n++
			// the appended slice: a one-element literal whose element is a whole element of a slice derived from the statement's list
			sl, ok := call.Call.Args[1].(*ssa.Slice)
			if !ok {
				bad = "appended value is not a slice literal"
				return
			}
			al, ok := sl.X.(*ssa.Alloc)
			if !ok {
				bad = "appended value is not a local literal"
				return
			}
			okElem := false
			for _, r := range *al.Referrers() {
				ia, ok := r.(*ssa.IndexAddr)
				if !ok {
					continue
				}
				for _, r2 := range *ia.Referrers() {
					if st, ok := r2.(*ssa.Store); ok && st.Addr == ia {
						t := c.term(st.Val)
						if strings.Contains(t, ".orderBy[") && !strings.Contains(t, "].Binding") && !strings.Contains(t, "].Desc") {
							okElem = true
						} else {
							bad = "element written back is " + truncate(t, 70)
						}
					}
				}
			}
			if !okElem && bad == "" {
				bad = "the element written back is rebuilt field by field"
			}
		})
	})
	if n == 0 {
		c.trivial("ORDER BY rewrite keeps whole entries", fn.Pos(), "orderByBindingsChecker does not rewrite the list")
		return
	}
	// the rewrite loop visits the whole original list: the loop containing the append has no exit other than its header
	withClosures(fn, func(f *ssa.Function) {
		fi := c.fi(f)
		allInstrs(f, func(in ssa.Instruction) {
			call, ok := in.(*ssa.Call)
			if !ok || !isBuiltinCall(&call.Call, "append") || !isNamed(call.Type(), modPath+"/bql/table", "SortConfig") {
				return
			}
			nl := fi.innermostLoop(in.Block().Index)
			if nl == nil {
				return
			}
			inL := nl.blocks
			header := nl.header
			var loop []int
			for bi := range inL {
				loop = append(loop, bi)
			}
			sort.Ints(loop)
			for _, bi := range loop {
				if bi == header {
					continue
				}
				for _, sx := range fi.succs[bi] {
					if sx < fi.n && !inL[sx] {
						if _, isRet := f.Blocks[bi].Instrs[len(f.Blocks[bi].Instrs)-1].(*ssa.Return); !isRet && bad == "" {
							bad = "the rewrite loop can be left early (break) at " + c.pos(f.Blocks[bi].Instrs[len(f.Blocks[bi].Instrs)-1].Pos())
						}
					}
				}
			}
		})
	})
	c.check(bad == "", "ORDER BY rewrite keeps whole entries", fn.Pos(), fmt.Sprintf("%d append(s) back into orderBy, each of a whole original entry", n), "the ORDER BY list is rewritten with rebuilt entries ("+bad+"): a key's DESC flag (or the key itself) can be lost when a binding is repeated")
}

// ---- S6b planner functions do not write through the shared lookup options -------------------------------------------------

var s6bAllowed = map[string]string{
	"planner.addFilterOptions":   "sets FilterOptions on the plan-owned global options for the duration of one clause, on the statement goroutine, before any fetch goroutine is started",
	"planner.resetFilterOptions": "clears it again after the clause was processed and its goroutines joined",
}

func ruleS6b(c *Ctx) {
	c.Rule("S6b", "per-row and per-clause time bounds never leak into the options shared by all rows, clauses and goroutines: no planner function stores through a *LookupOptions it was handed (it works on the copy made by updateTimeBounds), except the two reviewed filter setters", 5)
	n := 0
	for _, fn := range c.srcFuncs("bql/planner") {
		if fn.Parent() != nil {
			continue
		}
		p := paramOfNamed(fn, modPath+"/storage", "LookupOptions")
		if p == nil {
			continue
		}
		n++
		c.analysed(funcName(fn))
		key := funcName(fn) + " leaves the shared options alone"
		msg, bad := "", false
		// direct stores through the parameter only (callees are judged on their own)
		withClosures(fn, func(f *ssa.Function) {
			allInstrs(f, func(in ssa.Instruction) {
				st, ok := in.(*ssa.Store)
				if !ok {
					return
				}
				if fa, ok := st.Addr.(*ssa.FieldAddr); ok && c.derivedFromParam(fa.X, p, 0) {
					bad = true
					msg = fmt.Sprintf("stores to field %s of the options it was handed at %s", fieldName(fa.X.Type(), fa.Field), c.pos(in.Pos()))
				}
			})
		})
		if !bad {
			c.ok(key, fn.Pos(), "no store through the options parameter")
		} else if why, ok := s6bAllowed[funcName(fn)]; ok {
			c.ok(key, fn.Pos(), "reviewed: %s", why)
		} else {
			c.bad(key, fn.Pos(), "%s %s: the window of one row or clause narrows the options every other row, clause and goroutine reads (a data race, and results that depend on scheduling and on unrelated triples)", funcName(fn), msg)
		}
	}
	if n < 5 {
		c.undecided("planner functions taking options", token.NoPos, "only %d found", n)
	}
}

// ---- L2b a nil value is returned only with an error that is known to be one --------------------------------------------------

var l2bReviewed = map[string]string{}

func ruleL2b(c *Ctx, min int, rels ...string) {
	c.Rule("L2b", "a nil result is returned only together with an error known to be non-nil: in functions returning (pointer/interface, error), every `return nil, e` has e freshly constructed, or tested non-nil on every path to the return", min)
	for _, fn := range c.srcFuncs(rels...) {
		sig := fn.Signature
		if sig.Results().Len() != 2 || errorResultIndex(sig) != 1 || !nilable(sig.Results().At(0).Type()) {
			continue
		}
		if fn.Parent() != nil {
			continue
		}
		var bad []string
		n := 0
		for _, r := range c.returnsOf(fn) {
			rv := resultValues(r)
			if !isNilConst(rv[0]) || isNilConst(rv[1]) {
				continue
			}
			n++
			if !c.mayBeNilError(fn, rv[1], r) {
				continue
			}
			// a forwarded call result `return nil, f(...)` is the callee's business; a variable needs a dominating test
			if _, isCall := rv[1].(*ssa.Call); isCall {
				continue
			}
			bad = append(bad, c.pos(r.Pos()))
		}
		if n == 0 {
			continue
		}
		c.analysed(funcName(fn))
		key := funcName(fn) + " returns nil only with a definite error"
		if len(bad) == 0 {
			c.ok(key, fn.Pos(), "%d `return nil, err` sites, each with err constructed there or tested non-nil", n)
		} else if why, ok := l2bReviewed[funcName(fn)]; ok {
			c.ok(key, fn.Pos(), "reviewed: %s", why)
		} else {
			c.bad(key, fn.Pos(), "%s returns nil together with an error variable that may be nil at %v (no dominating err != nil): on that path the caller receives (nil, nil)", funcName(fn), bad)
		}
	}
}

// ---- M3b every cache is reset unconditionally around a write ---------------------------------------------------------

func ruleM3b(c *Ctx) {
	c.Rule("M3b", "a write through the memoizer resets every cache, unconditionally: in graphMemoizer.AddTriples/RemoveTriples each cache map is re-made in a block that lies on every path (dominates the forwarded write or post-dominates it), not under a condition", 2)
	gm, _, cacheFields, inner := c.memoAnchors()
	if gm == nil {
		return
	}
	for _, name := range []string{"AddTriples", "RemoveTriples"} {
		fn := methodByName(c, gm, name)
		if fn == nil {
			continue
		}
		fi := c.fi(fn)
		var write ssa.Instruction
		allInstrs(fn, func(in ssa.Instruction) {
			if call, ok := in.(*ssa.Call); ok && call.Call.IsInvoke() && call.Call.Method.Name() == name && fieldOfLoad(call.Call.Value) == inner {
				write = in
			}
		})
		key := funcName(fn) + " resets every cache unconditionally"
		if write == nil {
			c.bad(key, fn.Pos(), "no forwarded %s", name)
			continue
		}
		covered := map[*types.Var]bool{}
		for _, e := range c.effectiveStores(fn, 0) {
			if !cacheFields[e.field] {
				continue
			}
			if _, isMake := e.val.(*ssa.MakeMap); !isMake {
				continue
			}
			if fi.instrDominates(e.at, write) || fi.instrPostDominates(e.at, write) {
				covered[e.field] = true
			}
		}
		var missing []string
		for f := range cacheFields {
			if !covered[f] {
				missing = append(missing, f.Name())
			}
		}
		sort.Strings(missing)
		c.check(len(missing) == 0, key, write.Pos(), fmt.Sprintf("all %d caches are re-made on every path through the method", len(cacheFields)), fmt.Sprintf("cache(s) %v are reset only under a condition (or not at all) when %s is called: an answer memoized before the write is still served after it has returned", missing, name))
	}
}

// ---- L6c a consumer goroutine drains its channel ---------------------------------------------------------------------------

func ruleL6c(c *Ctx, rels ...string) {
	c.Rule("L6c", "a goroutine that consumes a channel its spawner sends on keeps receiving until the channel is closed: its receive loop has no other exit (no break or return in the body), otherwise the spawner blocks forever on its next send once the buffer is full", 1)
	n := 0
	for _, fn := range c.srcFuncs(rels...) {
		var gos []*ssa.Go
		allInstrs(fn, func(in ssa.Instruction) {
			if g, ok := in.(*ssa.Go); ok {
				gos = append(gos, g)
			}
		})
		for gi, g := range gos {
			mc, ok := g.Call.Value.(*ssa.MakeClosure)
			if !ok {
				continue
			}
			tgt := mc.Fn.(*ssa.Function)
			tfi := c.fi(tgt)
			// receive loops on a captured channel that the spawner (or its other closures) sends on
			allInstrs(tgt, func(in ssa.Instruction) {
				u, ok := in.(*ssa.UnOp)
				if !ok || u.Op != token.ARROW || !u.CommaOk || !inLoop(tfi, in.Block()) {
					return
				}
				ch := u.X
				if ld, ok := ch.(*ssa.UnOp); ok && ld.Op == token.MUL {
					ch = ld.X
				}
				fv, ok := ch.(*ssa.FreeVar)
				if !ok {
					return
				}
				var cell ssa.Value
				for i, v := range tgt.FreeVars {
					if v == fv && i < len(mc.Bindings) {
						cell = mc.Bindings[i]
					}
				}
				// does the spawner send on it?
				sends := false
				withClosures(fn, func(f *ssa.Function) {
					if f == tgt {
						return
					}
					isCellChan := func(v ssa.Value) bool {
						if ct, ok := v.(*ssa.ChangeType); ok {
							v = ct.X
						}
						sc := v
						if ld, ok := sc.(*ssa.UnOp); ok && ld.Op == token.MUL {
							sc = ld.X
						}
						if sc == cell {
							return true
						}
						if al, ok := cell.(*ssa.Alloc); ok {
							if sv := singleStore(al); sv != nil && v == sv {
								return true
							}
						}
						return false
					}
					allInstrs(f, func(i2 ssa.Instruction) {
						if sd, ok := i2.(*ssa.Send); ok && isCellChan(sd.Chan) {
							sends = true
						}
						// or hands the channel to a same-package helper that sends on it
						if cc := callCommon(i2); cc != nil {
							if callee := helperCallee(f, cc); callee != nil {
								for ai, a := range cc.Args {
									if ai < len(callee.Params) && isCellChan(a) {
										allInstrs(callee, func(i3 ssa.Instruction) {
											if sd, ok := i3.(*ssa.Send); ok && isValueOfParam(sd.Chan, callee.Params[ai]) {
												sends = true
											}
										})
									}
								}
							}
						}
					})
				})
				if !sends {
					return
				}
				n++
				key := fmt.Sprintf("%s goroutine #%d drains %s", funcName(fn), gi+1, fv.Name())
				// the loop containing the receive
				var loop []int
				inL := map[int]bool{}
				if nl := tfi.innermostLoop(in.Block().Index); nl != nil {
					inL = nl.blocks
					for bi := range inL {
						loop = append(loop, bi)
					}
					sort.Ints(loop)
				}
				early := ""
				for _, bi := range loop {
					b := tgt.Blocks[bi]
					if bi == in.Block().Index {
						continue // the receive block's exit is the channel-closed edge
					}
					if _, isRet := b.Instrs[len(b.Instrs)-1].(*ssa.Return); isRet {
						early = "returns at " + c.pos(b.Instrs[len(b.Instrs)-1].Pos())
					}
					for _, s := range tfi.succs[bi] {
						if s < tfi.n && !inL[s] {
							early = "leaves the loop at " + c.pos(b.Instrs[len(b.Instrs)-1].Pos())
						}
					}
				}
				c.check(early == "", key, in.Pos(), "the receive loop ends only when the channel is closed", "the consumer goroutine "+early+" while the channel is still open: once the buffer fills, the spawner blocks on its next send and the call never returns")
			})
		}
	}
	if n < 1 {
		c.undecided("consumer goroutines", token.NoPos, "only %d found", n)
	}
}

// ---- P8b an error that is tested is also propagated ---------------------------------------------------------------------------

var p8bAllowed = map[string]string{
	"semantic.processPredicate error of predicate.Parse":                  "probing: the token is first tried as a fully specified predicate; failure means it is a partially specified one and the regular-expression path takes over (which reports its own errors)",
	"(*planner.queryPlan).addSpecifiedData error of planner.cellToObject": "a cell that cannot become an object (e.g. a NULL from an optional clause, or an extracted id string) leaves the object unspecified; the clause is then fetched with fewer fixed components",
	"planner.objectToCell error of (*triple.Object).Node":                 "accessor probing: the object is tried as node, predicate, literal in turn",
	"planner.objectToCell error of (*triple.Object).Predicate":            "accessor probing",
	"planner.objectToCell error of (*triple.Object).Literal":              "accessor probing; the final return reports the unknown kind",
	"planner.tripleToRow error of (*triple.Object).Node":                  "accessor probing: decides which kind of cell to build; the failing case is handled (skippable error or NULL cell)",
	"planner.tripleToRow error of (*triple.Object).Predicate":             "accessor probing as above",
}

func ruleP8b(c *Ctx, rels ...string) {
	c.Rule("P8b", "an error is not swallowed by its own test: on a statement path, the error result of a storage driver call or module function is returned, stored or wrapped somewhere — it is never used only in comparisons with nil", 40)
	for _, fn := range c.srcFuncs(rels...) {
		allInstrs(fn, func(in ssa.Instruction) {
			call, ok := in.(*ssa.Call)
			if !ok {
				return
			}
			var sig *types.Signature
			name := ""
			if call.Call.IsInvoke() {
				if !isNamed(call.Call.Value.Type(), modPath+"/storage", "Graph") && !isNamed(call.Call.Value.Type(), modPath+"/storage", "Store") {
					return
				}
				sig = call.Call.Method.Type().(*types.Signature)
				name = "(" + types.TypeString(call.Call.Value.Type(), shortQual) + ")." + call.Call.Method.Name()
			} else if f := call.Call.StaticCallee(); f != nil && f.Pkg != nil && strings.HasPrefix(f.Pkg.Pkg.Path(), modPath) {
				if f.Signature.Recv() != nil && isNamed(f.Signature.Recv().Type(), modPath+"/triple", "Object") {
					return // Node()/Predicate()/Literal() are kind probes, their error is the negative answer
				}
				sig = f.Signature
				name = funcName(f)
			} else if call.Call.StaticCallee() == nil {
				// a function value defined in the module (updater closures, evaluators)
				sg, ok := call.Call.Value.Type().Underlying().(*types.Signature)
				if !ok {
					return
				}
				sig = sg
				name = "func value " + truncate(c.term(call.Call.Value), 40)
			} else {
				return
			}
			ei := errorResultIndex(sig)
			if ei < 0 {
				return
			}
			var errv ssa.Value
			if sig.Results().Len() == 1 {
				errv = call
			} else {
				for _, r := range *call.Referrers() {
					if ex, ok := r.(*ssa.Extract); ok && ex.Index == ei {
						errv = ex
					}
				}
			}
			if errv == nil || len(*errv.Referrers()) == 0 {
				return // P8's business
			}
			propagated := false
			var visit func(v ssa.Value, d int)
			visit = func(v ssa.Value, d int) {
				if d > 3 {
					return
				}
				for _, r := range *v.Referrers() {
					switch x := r.(type) {
					case *ssa.BinOp:
						// comparison only
					case *ssa.Phi:
						visit(x, d+1)
					case *ssa.If:
					default:
						_ = x
						propagated = true
					}
				}
			}
			visit(errv, 0)
			key := fmt.Sprintf("%s error of %s", funcName(fn), name)
			if propagated {
				c.ok(key, in.Pos(), "the error is returned, stored or passed on")
				return
			}
			if why, ok := p8bAllowed[key]; ok {
				c.ok(key, in.Pos(), "reviewed: %s", why)
				return
			}
			c.bad(key, in.Pos(), "the error returned by %s at %s is only compared with nil and then dropped: the failure is treated like an ordinary negative answer and the statement reports success on partial data", name, c.pos(in.Pos()))
		})
	}
}

// ---- X6 no blind skip in the lexer ----------------------------------------------------------------------------------------------

func ruleX6(c *Ctx) {
	c.Rule("X6", "the lexer never skips a rune it has not looked at: a next() whose result is discarded is either the first consumption of a state entered under a rune-class fact, or is dominated by a test of the peeked rune (escape handling consumes only the escaped delimiter)", 5)
	a := c.lexAnchors()
	if a == nil {
		return
	}
	n := 0
	for _, fn := range a.cursorFns {
		if fn == a.peek || fn == a.next || fn == a.backup {
			continue
		}
		fi := c.fi(fn)
		ordinal := 0
		allInstrs(fn, func(in ssa.Instruction) {
			call, ok := in.(*ssa.Call)
			if !ok || call.Call.StaticCallee() != a.next || len(*call.Referrers()) > 0 {
				return
			}
			ordinal++
			n++
			key := fmt.Sprintf("%s discarded next #%d", funcName(fn), ordinal)
			// first consumption of the function: nothing else consumed before on any path
			first := true
			allInstrs(fn, func(i2 ssa.Instruction) {
				if c2, ok := i2.(*ssa.Call); ok && i2 != in {
					g := c2.Call.StaticCallee()
					if (g == a.next || (g != nil && a.byName[g.Name()] == g && g != a.peek && g != a.emit && g != a.emitError && g != a.ignore && g != a.backup)) && !fi.instrDominates(in, i2) && i2.Block() != in.Block() {
						// some other consumer is not dominated by this call => this call is not first on all paths
						if fi.reachable(i2.Block()) && !fi.dominates(in.Block(), i2.Block()) {
							first = false
						}
					}
					if g == a.next && i2.Block() == in.Block() && instrIndex(i2) < instrIndex(in) {
						first = false
					}
				}
			})
			if first && in.Block().Index == 0 {
				c.ok(key, in.Pos(), "first consumption of the state: the rune was classified by lexToken before the hand-over (X1b)")
				return
			}
			known := false
			for _, ft := range fi.factsAt(in.Block()) {
				// only a peeked rune is the one about to be skipped; a fact about an earlier next() says nothing about it
				isPeek := func(v ssa.Value) bool {
					call, ok := v.(*ssa.Call)
					return ok && call.Call.StaticCallee() == a.peek
				}
				if kn, val := evalRuneCond(ft.Cond, isPeek, rclass{kind: "eof"}, a.eofVal); kn && val != ft.Truth {
					known = true // the fact excludes eof, i.e. it tested the rune
				}
				// equality with a symbol passed in by the caller
				if bo, ok := ft.Cond.(*ssa.BinOp); ok && (bo.Op == token.EQL || bo.Op == token.NEQ) && (bo.Op == token.EQL) == ft.Truth && (isPeek(bo.X) || isPeek(bo.Y)) {
					known = true
				}
			}
			c.check(known, key, in.Pos(), "dominated by a test of the peeked/previous rune", "next() at "+c.pos(in.Pos())+" discards a rune that no dominating test looked at: whatever follows (a closing delimiter, end of input) is swallowed, so a well-formed token is lexed as an error or runs on")
		})
	}
	if n < 5 {
		c.undecided("discarded next calls", token.NoPos, "only %d found", n)
	}
}
