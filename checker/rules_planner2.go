package main

import (
	"fmt"
	"go/token"
	"go/types"
	"sort"
	"strings"

	"golang.org/x/tools/go/ssa"
)

// ---- P4 optional preserves rows ------------------------------------------------------------------

// factOnTerm reports whether a fact about a value whose term ends with suffix holds with the given truth at block b.
func (c *Ctx) factOnTerm(fn *ssa.Function, b *ssa.BasicBlock, suffix string) (found bool, truth bool) {
	for _, ft := range c.fi(fn).factsAt(b) {
		if strings.HasSuffix(c.term(ft.Cond), suffix) {
			return true, ft.Truth
		}
	}
	return false, false
}

func ruleP4(c *Ctx) {
	c.Rule("P4", "an OPTIONAL clause never removes rows: (a) processClause reports 'unresolvable' (which truncates the table) only on the non-optional edge; (b) a cross product on an optional path is taken only with a non-empty right table; (c) when an optional clause matches nothing for a row, the row is kept with NULL cells; (d) an inapplicable extraction skips the triple only when the clause is not optional", 10)
	pc := c.mustFunc("bql/planner", "queryPlan.processClause")
	if pc != nil {
		n := 0
		for _, r := range c.returnsOf(pc) {
			rv := resultValues(r)
			if !c.mayBeNilError(pc, rv[1], r) {
				continue
			}
			n++
			if k, ok := rv[0].(*ssa.Const); ok && k.Value != nil && k.Value.ExactString() == "false" {
				c.ok(fmt.Sprintf("processClause result at return #%d is resolvable", returnOrdinal(c, pc, r)), r.Pos(), "returns false")
				continue
			}
			what := "a computed value"
			if ex, ok := rv[0].(*ssa.Extract); ok {
				if call, ok := ex.Tuple.(*ssa.Call); ok {
					what = "the flag returned by " + calleeName(&call.Call)
				}
			} else if k, ok := rv[0].(*ssa.Const); ok {
				what = "constant " + k.Value.ExactString()
			}
			key := "processClause may report unresolvable: " + what
			found, truth := c.factOnTerm(pc, r.Block(), ".Optional")
			if found && !truth {
				c.ok(key, r.Pos(), "only on the non-optional edge")
			} else {
				c.bad(key, r.Pos(), "the return at %s hands %s to processGraphPattern as 'unresolvable' without being confined to non-optional clauses: an optional clause that matches nothing truncates the whole result (or fails) instead of leaving the rows alone", c.pos(r.Pos()), truncate(c.term(rv[0]), 80))
			}
		}
		if n < 4 {
			c.undecided("processClause returns", pc.Pos(), "only %d non-error returns found", n)
		}
		// (b) in processClause: DotProduct only on the non-optional edge
		allInstrs(pc, func(in ssa.Instruction) {
			call, ok := in.(*ssa.Call)
			if !ok || call.Call.StaticCallee() == nil || call.Call.StaticCallee().Name() != "DotProduct" {
				return
			}
			found, truth := c.factOnTerm(pc, in.Block(), ".Optional")
			c.check(found && !truth, "processClause takes the plain cross product only for non-optional clauses", in.Pos(), "DotProduct on the !cls.Optional edge", "DotProduct is reachable for an optional clause: an empty right side empties the result")
		})
	}
	// (b) inside LeftOptionalJoin
	if lj := c.mustFunc("bql/table", "Table.LeftOptionalJoin"); lj != nil {
		n := 0
		allInstrs(lj, func(in ssa.Instruction) {
			call, ok := in.(*ssa.Call)
			if !ok || call.Call.StaticCallee() == nil || call.Call.StaticCallee().Name() != "DotProduct" {
				return
			}
			n++
			nonEmpty := false
			for _, ft := range c.fi(lj).factsAt(in.Block()) {
				t := c.term(ft.Cond)
				// len(t2.Data) == 0 false, or len(t2.Data) > 0 / != 0 true, or t2.NumRows() ...
				if strings.Contains(t, "param:"+lj.Params[1].Name()) && (strings.Contains(t, ".Data)") || strings.Contains(t, "NumRows(")) {
					if (strings.Contains(t, "== 0") && !ft.Truth) || ((strings.Contains(t, "> 0") || strings.Contains(t, "!= 0")) && ft.Truth) {
						nonEmpty = true
					}
				}
			}
			c.check(nonEmpty, "LeftOptionalJoin takes the cross product only with a non-empty right table", in.Pos(), "DotProduct dominated by a test that the right table has rows", "LeftOptionalJoin calls DotProduct without testing that the right table has rows: 0 matches multiply the left rows away")
		})
		if n == 0 {
			c.trivial("LeftOptionalJoin takes the cross product only with a non-empty right table", lj.Pos(), "LeftOptionalJoin never calls DotProduct")
		}
	}
	// (c) addSpecifiedData
	if as := c.mustFunc("bql/planner", "queryPlan.addSpecifiedData"); as != nil {
		okKeep := false
		noMerge := false
		_ = noMerge
		allInstrs(as, func(in ssa.Instruction) {
			call, ok := in.(*ssa.Call)
			if !ok || call.Call.StaticCallee() == nil || call.Call.StaticCallee().Name() != "AddRow" {
				return
			}
			fo, to := c.factOnTerm(as, in.Block(), ".Optional")
			zero := false
			for _, ft := range c.fi(as).factsAt(in.Block()) {
				t := c.term(ft.Cond)
				if strings.Contains(t, "NumRows(") && strings.Contains(t, "== 0") && ft.Truth {
					zero = true
				}
			}
			if fo && to && zero {
				// the row added is built from the input row r
				usesRow := false
				for _, i2 := range in.Block().Instrs {
					if st, ok := i2.(*ssa.Store); ok && isValueOfParam(st.Val, as.Params[2]) {
						usesRow = true
					}
				}
				if usesRow || strings.Contains(c.term(call.Call.Args[1]), "param:"+as.Params[2].Name()) {
					okKeep = true
				}
				// ... merged with an empty cell for every binding the clause would have supplied: the row handed to
				// AddRow is the result of MergeRows, not the bare input row (every row of a table has a cell per binding;
				// the sorter and the projection rely on it)
				if mc, ok := call.Call.Args[1].(*ssa.Call); !ok || mc.Call.StaticCallee() == nil || fnName(mc.Call.StaticCallee()) != "MergeRows" {
					okKeep = false
					noMerge = true
				}
			}
		})
		c.check(okKeep, "addSpecifiedData keeps the row when an optional clause matches nothing", as.Pos(), "on NumRows()==0 && Optional the input row (merged with NULL cells) is added", "the no-match branch of an optional clause no longer adds the input row merged with empty cells for the clause's bindings: rows without a match disappear, or stay without a cell for the new bindings (ORDER BY/GROUP BY on such a binding then ends the process in rowLess, an alias on it dereferences nil)")
	}
	// (d) skippable errors
	if tr := c.mustFunc("bql/planner", "tripleToRow"); tr != nil {
		n := 0
		// in tripleToRow itself and in the same-package helpers it calls (parameters read as the arguments given)
		var scan func(f *ssa.Function, ctxFound, ctxTruth bool, d int)
		scan = func(f *ssa.Function, ctxFound, ctxTruth bool, d int) {
			for _, r := range c.returnsOf(f) {
				rv := resultValues(r)
				if len(rv) < 2 {
					continue
				}
				mi, ok := rv[len(rv)-1].(*ssa.MakeInterface)
				if !ok || !isNamed(mi.X.Type(), modPath+"/bql/planner", "skippableError") {
					continue
				}
				n++
				found, truth := c.factOnTerm(f, r.Block(), ".Optional")
				if !found {
					found, truth = ctxFound, ctxTruth
				}
				key := fmt.Sprintf("tripleToRow skip #%d only for non-optional clauses", n)
				c.check(found && !truth, key, r.Pos(), "skippableError returned on the !cls.Optional edge", fmt.Sprintf("the skippableError return at %s is not confined to non-optional clauses: an optional clause drops the triple instead of yielding NULL", c.pos(r.Pos())))
			}
			if d >= 2 {
				return
			}
			seenCallee := map[*ssa.Function]bool{}
			allInstrs(f, func(in ssa.Instruction) {
				cc := callCommon(in)
				if cc == nil {
					return
				}
				callee := helperCallee(f, cc)
				if callee == nil || callee.Parent() != nil || seenCallee[callee] || errorResultIndex(callee.Signature) < 0 {
					return
				}
				seenCallee[callee] = true // one visit per helper: its returns are counted once
				fo, to := c.factOnTerm(f, in.Block(), ".Optional")
				if !fo {
					fo, to = ctxFound, ctxTruth
				}
				intoHelper(callee, cc, func() { scan(callee, fo, to, d+1) })
			})
		}
		scan(tr, false, false, 0)
		if n < 4 {
			c.undecided("tripleToRow skippable returns", tr.Pos(), "only %d skippableError returns found", n)
		}
	}
}

// ---- P10 order by rendering -------------------------------------------------------------------------

// renderingSources: the renderings (not order preserving) a string value may be derived from.
func (c *Ctx) renderingSources(v ssa.Value, depth int, seen map[ssa.Value]bool, out map[string]bool) {
	if depth > 8 || seen[v] {
		return
	}
	seen[v] = true
	switch x := v.(type) {
	case *ssa.Phi:
		for _, e := range x.Edges {
			c.renderingSources(e, depth+1, seen, out)
		}
	case *ssa.Extract:
		c.renderingSources(x.Tuple, depth+1, seen, out)
	case *ssa.UnOp:
		if x.Op == token.MUL {
			if al, ok := x.X.(*ssa.Alloc); ok {
				for _, r := range *al.Referrers() {
					if st, ok := r.(*ssa.Store); ok && st.Addr == al {
						c.renderingSources(st.Val, depth+1, seen, out)
					}
				}
			}
		}
	case *ssa.Call:
		f := x.Call.StaticCallee()
		if f == nil {
			return
		}
		if f.Signature.Recv() != nil {
			rt := f.Signature.Recv().Type()
			if isNamed(rt, modPath+"/triple/literal", "Literal") && f.Name() == "ToComparableString" {
				out["(*literal.Literal).ToComparableString"] = true
				return
			}
			if isNamed(rt, "time", "Time") && (f.Name() == "Format" || f.Name() == "String") {
				out["(time.Time)."+f.Name()] = true
				return
			}
		}
		if f.Pkg != nil && f.Pkg.Pkg.Path() == "strings" && len(x.Call.Args) >= 1 {
			c.renderingSources(x.Call.Args[0], depth+1, seen, out)
			return
		}
		if f.Pkg != nil && strings.HasPrefix(f.Pkg.Pkg.Path(), modPath) && f.Blocks != nil && depth < 4 {
			sub := map[string]bool{}
			for _, r := range c.returnsOf(f) {
				if len(r.Results) > 0 {
					c.renderingSources(resultValues(r)[0], depth+2, map[ssa.Value]bool{}, sub)
				}
			}
			for s := range sub {
				if strings.Contains(s, " via ") {
					out[s] = true
				} else {
					out[s+" via "+funcName(f)] = true
				}
			}
		}
	}
}

func ruleP10(c *Ctx, rels ...string) {
	c.Rule("P10", "numeric and chronological order are never decided on renderings: no string ordering (<, >, stringLess) receives a value produced by Literal.ToComparableString (signed %d/%f) or time.Format (zone-dependent)", 0)
	n := 0
	for _, fn := range c.srcFuncs(rels...) {
		srcs := map[string]token.Pos{}
		allInstrs(fn, func(in ssa.Instruction) {
			var ops []ssa.Value
			switch x := in.(type) {
			case *ssa.BinOp:
				if (x.Op == token.LSS || x.Op == token.GTR || x.Op == token.LEQ || x.Op == token.GEQ) && types.Identical(x.X.Type().Underlying(), types.Typ[types.String]) {
					ops = []ssa.Value{x.X, x.Y}
				}
			case *ssa.Call:
				if f := x.Call.StaticCallee(); f != nil && fnName(f) == "stringLess" {
					ops = x.Call.Args[:2]
				}
			}
			for _, op := range ops {
				found := map[string]bool{}
				c.renderingSources(op, 0, map[ssa.Value]bool{}, found)
				for s := range found {
					if _, ok := srcs[s]; !ok {
						srcs[s] = in.Pos()
					}
				}
			}
		})
		// one finding per (ordering function, rendering): through which helper the text arrives is detail, not identity
		byKind := map[string][]string{}
		for s := range srcs {
			kind := s
			if i := strings.Index(s, " via "); i >= 0 {
				kind = s[:i]
			}
			byKind[kind] = append(byKind[kind], s)
		}
		var ks []string
		for k := range byKind {
			ks = append(ks, k)
		}
		sort.Strings(ks)
		for _, k := range ks {
			n++
			sort.Strings(byKind[k])
			first := byKind[k][0]
			c.bad(funcName(c.attributionRoot(fn))+" orders by "+k, srcs[first], "a string ordering at %s compares text produced by %s: the rendering is not order preserving (negative numbers, exponents, time zones), so rows are sorted or compared wrongly", c.pos(srcs[first]), strings.Join(byKind[k], ", "))
		}
	}
	if n == 0 {
		c.ok("order sinks", token.NoPos, "no string ordering receives a numeric or time rendering in %v", rels)
	}
}

// ---- P11 map order -------------------------------------------------------------------------------------

// p11Reviewed: map ranges with an order-sensitive body that were read and found harmless, one reason each.
var p11Reviewed = map[string]string{
	"(*semantic.GraphClause).Bindings map range #1": "collects the clause's binding names; every consumer treats the list as a set (table.New, HasBinding, AddBindings); the projection order comes from the statement, not from here",
	"(*semantic.Statement).Bindings map range #1":   "collects binding names; consumed as a set",
	"(*table.Table).DotProduct map range #3":        "rebuilds the column list from the binding set; columns are a set, the rows are produced by the nested slice loops in left-major order",
	"(*table.Table).LeftOptionalJoin map range #1":  "rebuilds the column list from the binding set (a set)",
	"(*memory.memoryStore).GraphNames map range #1": "GraphNames promises the set of names, no order (property C01); SHOW GRAPHS rows without ORDER BY are unordered",
	"planner.organizeClausesByBinding map range #1": "appends the clause once to each of its bindings' lists; the order inside each list follows the clause slice, not the map",
	"table.joinWithRange map range #1":              "sort-key list built from the shared bindings; both tables are sorted with the same list, so only the (unspecified) order of result rows can vary, not the multiset",
	"table.joinWithRange map range #2":              "rebuilds the column list from the binding set (a set)",
}

func ruleP11(c *Ctx, rels ...string) {
	c.Rule("P11", "no map iteration order reaches an ordered output: every range over a map whose body appends, sends, writes, or stops at the first match either sorts what it built before it escapes or is in the reviewed table with a reason", 6)
	nSens := 0
	for _, fn := range c.srcFuncs(rels...) {
		fi := c.fi(fn)
		allInstrs(fn, func(in ssa.Instruction) {
			rg, ok := in.(*ssa.Range)
			if !ok {
				return
			}
			if _, isMap := rg.X.Type().Underlying().(*types.Map); !isMap {
				return
			}
			// loop body = blocks of the SCC containing the Next instruction
			var nextBlk *ssa.BasicBlock
			for _, r := range *rg.Referrers() {
				if nx, ok := r.(*ssa.Next); ok {
					nextBlk = nx.Block()
				}
			}
			if nextBlk == nil {
				return
			}
			var body []int
			if nl := fi.innermostLoop(nextBlk.Index); nl != nil {
				for bi := range nl.blocks {
					body = append(body, bi)
				}
				sort.Ints(body)
			}
			var effects []string
			var appended []ssa.Value
			inBody := map[int]bool{}
			for _, bi := range body {
				inBody[bi] = true
			}
			for _, bi := range body {
				b := fn.Blocks[bi]
				for _, i2 := range b.Instrs {
					switch x := i2.(type) {
					case *ssa.Call:
						if isBuiltinCall(&x.Call, "append") {
							effects = append(effects, "append")
							appended = append(appended, x)
						}
						if f := x.Call.StaticCallee(); f != nil && (strings.HasPrefix(f.Name(), "Write") || f.Name() == "Fprintf" || f.Name() == "Fprint" || f.Name() == "Fprintln") {
							effects = append(effects, "write")
						}
					case *ssa.Send:
						effects = append(effects, "send")
					case *ssa.Return:
						for _, rv := range x.Results {
							if strings.Contains(c.term(rv), "next(range(") {
								effects = append(effects, "returns an element")
							}
						}
					}
				}
				// first-match break: leaving the loop from inside the body with a value that depends on the element
				if b != nextBlk {
					for _, sb := range b.Succs {
						if inBody[sb.Index] {
							continue
						}
						for _, i3 := range sb.Instrs {
							phi, ok := i3.(*ssa.Phi)
							if !ok {
								break
							}
							for pi, pb := range sb.Preds {
								if pb == b && strings.Contains(c.term(phi.Edges[pi]), "next(range(") {
									effects = append(effects, "breaks with an element")
								}
							}
						}
					}
				}
			}
			if len(effects) == 0 {
				return
			}
			nSens++
			c.analysed(funcName(fn))
			ord := 0
			allInstrs(fn, func(i4 ssa.Instruction) {
				if r2, ok := i4.(*ssa.Range); ok {
					if _, isMap := r2.X.Type().Underlying().(*types.Map); isMap && r2.Pos() <= rg.Pos() {
						ord++
					}
				}
			})
			key := fmt.Sprintf("%s map range #%d", funcName(fn), ord)
			// sorted afterwards?
			sorted := false
			allInstrs(fn, func(i3 ssa.Instruction) {
				call, ok := i3.(*ssa.Call)
				if !ok || call.Call.StaticCallee() == nil || call.Call.StaticCallee().Pkg == nil || call.Call.StaticCallee().Pkg.Pkg.Path() != "sort" {
					return
				}
				if !inBody[i3.Block().Index] && fi.dominates(nextBlk, i3.Block()) {
					sorted = true
				}
			})
			onlyAppend := true
			for _, e := range effects {
				if e != "append" {
					onlyAppend = false
				}
			}
			// where does the slice built by the loop end up?
			dests := map[string]bool{}
			if onlyAppend {
				seenV := map[ssa.Value]bool{}
				var follow func(v ssa.Value, d int)
				follow = func(v ssa.Value, d int) {
					if seenV[v] || v.Referrers() == nil {
						return
					}
					seenV[v] = true
					if d > 8 {
						dests["?"] = true
						return
					}
					for _, r := range *v.Referrers() {
						switch x := r.(type) {
						case *ssa.Phi:
							follow(x, d+1)
						case *ssa.Call:
							if isBuiltinCall(&x.Call, "append") && x.Call.Args[0] == v {
								follow(x, d+1)
							} else if isBuiltinCall(&x.Call, "len") {
								// size only
							} else {
								dests["call "+calleeName(&x.Call)] = true
							}
						case *ssa.Store:
							if x.Val != v {
								continue
							}
							switch a := x.Addr.(type) {
							case *ssa.FieldAddr:
								if n := namedOf(derefType(a.X.Type())); n != nil {
									dests[n.Obj().Name()+"."+fieldName(a.X.Type(), a.Field)] = true
								} else {
									dests["field"] = true
								}
							case *ssa.Alloc:
								for _, lr := range *a.Referrers() {
									if u, ok := lr.(*ssa.UnOp); ok && u.Op == token.MUL {
										follow(u, d+1)
									}
								}
							default:
								dests["store"] = true
							}
						case *ssa.Return:
							sites := c.callSites().sites[x.Parent()]
							if len(sites) == 0 || c.callSites().escapes[x.Parent()] {
								dests["returned"] = true
							}
							for _, site := range sites {
								if cv, ok := site.(ssa.Value); ok {
									follow(cv, d+1)
								}
							}
						case *ssa.DebugRef:
						default:
							dests[fmt.Sprintf("%T", r)] = true
						}
					}
				}
				for _, av := range appended {
					follow(av, 0)
				}
			}
			switch {
			case sorted && onlyAppend:
				c.ok(key, in.Pos(), "the slice built in the loop is sorted before it is used")
			case onlyAppend && len(dests) == 1 && dests["Table.AvailableBindings"]:
				c.ok(key, in.Pos(), "reviewed class: the slice only becomes a table's column list (Table.AvailableBindings), which every consumer treats as a set — membership goes through mbs (TB1) and the projection order comes from the statement")
			case p11Reviewed[key] != "":
				c.ok(key, in.Pos(), "reviewed (%s): %s", strings.Join(uniq(effects), ","), p11Reviewed[key])
			default:
				c.bad(key, in.Pos(), "range over map %s at %s has an order-sensitive body (%s) and its result is neither sorted nor reviewed: the outcome depends on Go's randomised map iteration order", truncate(c.term(rg.X), 60), c.pos(in.Pos()), strings.Join(uniq(effects), ","))
			}
		})
	}
	if nSens < 6 {
		c.undecided("order-sensitive map ranges", token.NoPos, "only %d found", nSens)
	}
}

// ---- P12 limit literal validated, L5 allocation size sign -------------------------------------------------

func ruleP12(c *Ctx) {
	c.Rule("P12", "LIMIT takes a non-negative int64: every store to Statement.limit is dominated by the literal-type test (Int64) and by a sign test, and Table.Limit — whose make() would panic on a negative size — is only ever given Statement.Limit() or tests the sign itself", 2)
	stT := c.mustNamed("bql/semantic", "Statement")
	litP := c.pkg("triple/literal")
	if stT == nil || litP == nil {
		return
	}
	nStores := 0
	allGuarded := true
	for _, fn := range c.srcFuncs("bql/semantic", "bql/planner", "bql/grammar") {
		allInstrs(fn, func(in ssa.Instruction) {
			st, ok := in.(*ssa.Store)
			if !ok {
				return
			}
			fa, ok := st.Addr.(*ssa.FieldAddr)
			if !ok || namedOf(fa.X.Type()) != stT || fieldName(fa.X.Type(), fa.Field) != "limit" {
				return
			}
			if _, fresh := fa.X.(*ssa.Alloc); fresh {
				return
			}
			nStores++
			typeOK, signOK := false, false
			for _, ft := range c.factsForInstr(in) {
				t := c.term(ft.Cond)
				if strings.Contains(t, ").Type(") && strings.Contains(t, "!= ") && !ft.Truth || strings.Contains(t, ").Type(") && strings.Contains(t, "== ") && ft.Truth {
					typeOK = true
				}
				if bo, ok := ft.Cond.(*ssa.BinOp); ok {
					if v, isC := constInt(bo.Y); isC && v == 0 {
						if c.term(bo.X) == c.term(st.Val) || sameExtract(bo.X, st.Val) {
							if (bo.Op == token.LSS && !ft.Truth) || (bo.Op == token.GEQ && ft.Truth) {
								signOK = true
							}
						}
					}
				}
			}
			// the value may have been validated by a same-package helper that returns it: then both tests must hold at
			// every success return of the helper, and the store must lie on the helper's err == nil edge
			if ex, ok := st.Val.(*ssa.Extract); ok && ex.Index == 0 && !(typeOK && signOK) {
				if call, ok := ex.Tuple.(*ssa.Call); ok {
					if callee := helperCallee(fn, &call.Call); callee != nil {
						errChecked := false
						for _, ft := range c.factsForInstr(in) {
							if bo, ok := ft.Cond.(*ssa.BinOp); ok && isNilConst(bo.Y) {
								if e2, ok := bo.X.(*ssa.Extract); ok && e2.Tuple == ssa.Value(call) && e2.Index == call.Call.Signature().Results().Len()-1 && (bo.Op == token.EQL) == ft.Truth {
									errChecked = true
								}
							}
						}
						hT, hS, nRet := true, true, 0
						for _, r := range c.returnsOf(callee) {
							rv := resultValues(r)
							if len(rv) < 2 || !isNilConst(rv[len(rv)-1]) {
								continue
							}
							nRet++
							tOK, sOK := false, false
							for _, ft := range c.fi(callee).factsAt(r.Block()) {
								t := c.term(ft.Cond)
								if strings.Contains(t, ").Type(") && strings.Contains(t, "!= ") && !ft.Truth || strings.Contains(t, ").Type(") && strings.Contains(t, "== ") && ft.Truth {
									tOK = true
								}
								if bo, ok := ft.Cond.(*ssa.BinOp); ok {
									if v, isC := constInt(bo.Y); isC && v == 0 && (c.term(bo.X) == c.term(rv[0]) || sameExtract(bo.X, rv[0])) {
										if (bo.Op == token.LSS && !ft.Truth) || (bo.Op == token.GEQ && ft.Truth) {
											sOK = true
										}
									}
								}
							}
							hT, hS = hT && tOK, hS && sOK
						}
						if errChecked && nRet > 0 {
							typeOK, signOK = typeOK || hT, signOK || hS
						}
					}
				}
			}
			key := funcName(fn) + " stores Statement.limit"
			switch {
			case typeOK && signOK:
				c.ok(key, in.Pos(), "dominated by the Int64 type test and by lv >= 0")
			case !typeOK:
				allGuarded = false
				c.bad(key, in.Pos(), "the limit is stored at %s without the literal-type test: a non-int64 LIMIT is not rejected", c.pos(in.Pos()))
			default:
				allGuarded = false
				c.bad(key, in.Pos(), "the limit is stored at %s without a sign test: LIMIT \"-1\"^^type:int64 reaches make([]Row, -1) in Table.Limit and panics", c.pos(in.Pos()))
			}
		})
	}
	if nStores == 0 {
		c.undecided("stores to Statement.limit", token.NoPos, "none found")
	}
	// Table.Limit
	tl := c.mustFunc("bql/table", "Table.Limit")
	if tl == nil {
		return
	}
	selfGuard := false
	var mk ssa.Instruction
	allInstrs(tl, func(in ssa.Instruction) {
		if ms, ok := in.(*ssa.MakeSlice); ok {
			mk = in
			for _, ft := range c.fi(tl).factsAt(in.Block()) {
				if bo, ok := ft.Cond.(*ssa.BinOp); ok {
					if v, isC := constInt(bo.Y); isC && v == 0 && isValueOfParam(bo.X, tl.Params[1]) {
						if (bo.Op == token.LSS && !ft.Truth) || (bo.Op == token.GEQ && ft.Truth) {
							selfGuard = true
						}
					}
				}
			}
			_ = ms
		}
	})
	key := "Table.Limit never allocates a negative size"
	if mk == nil {
		c.trivial(key, tl.Pos(), "Table.Limit does not allocate")
		return
	}
	if selfGuard {
		c.ok(key, mk.Pos(), "make() dominated by a sign test of the parameter")
		return
	}
	okCallers, nCallers := true, 0
	for _, fn := range c.srcFuncs() {
		allInstrs(fn, func(in ssa.Instruction) {
			call, ok := in.(*ssa.Call)
			if !ok || call.Call.StaticCallee() != tl {
				return
			}
			nCallers++
			t := c.term(call.Call.Args[1])
			if !strings.Contains(t, "(*semantic.Statement).Limit(") {
				okCallers = false
				c.bad(funcName(fn)+" calls Table.Limit", in.Pos(), "Table.Limit receives %s, which is not the validated statement limit, and does not test the sign itself", truncate(t, 80))
			}
		})
	}
	if okCallers && allGuarded && nCallers > 0 {
		c.ok(key, mk.Pos(), "%d caller(s), all passing Statement.Limit(), whose only writer validates the sign", nCallers)
	} else if okCallers && nCallers > 0 {
		c.bad(key, mk.Pos(), "make([]Row, i) in Table.Limit relies on Statement.limit being non-negative, but a store to it is not sign-guarded")
	}
}

func sameExtract(a, b ssa.Value) bool {
	ea, ok1 := a.(*ssa.Extract)
	eb, ok2 := b.(*ssa.Extract)
	return ok1 && ok2 && ea.Tuple == eb.Tuple && ea.Index == eb.Index
}
