package main

import (
	"fmt"
	"go/constant"
	"go/token"
	"go/types"
	"sort"
	"strings"

	"golang.org/x/tools/go/ssa"
)

// ---- A1 accumulators reset what they accumulate; A2 the group reducer resets before accumulating --------------

func fieldsWritten(fn *ssa.Function, recv *types.Named) map[string]bool {
	out := map[string]bool{}
	allInstrs(fn, func(in ssa.Instruction) {
		switch x := in.(type) {
		case *ssa.Store:
			if fa, ok := x.Addr.(*ssa.FieldAddr); ok && namedOf(fa.X.Type()) == recv {
				out[fieldName(fa.X.Type(), fa.Field)] = true
			}
		case *ssa.MapUpdate:
			if f := fieldOfLoad(x.Map); f != nil {
				out[f.Name()] = true
			}
		}
	})
	return out
}

func ruleA1(c *Ctx) {
	c.Rule("A1", "aggregation state does not leak from one group into the next: every field an Accumulator implementation writes in Accumulate is re-initialised in its Reset, and the group reducer resets every accumulator before the first Accumulate of a group", 5)
	acc := c.mustNamed("bql/table", "Accumulator")
	if acc == nil {
		return
	}
	iface, ok := acc.Underlying().(*types.Interface)
	if !ok {
		c.undecided("table.Accumulator", token.NoPos, "not an interface")
		return
	}
	n := 0
	for _, impl := range c.implementers(iface) {
		a := methodByName(c, impl, "Accumulate")
		r := methodByName(c, impl, "Reset")
		if r == nil {
			// Reset promoted from an embedded state struct: the method-set entry is a wrapper around it
			ms := c.Prog.MethodSets.MethodSet(types.NewPointer(impl))
			if sel := ms.Lookup(impl.Obj().Pkg(), "Reset"); sel != nil {
				r = c.Prog.MethodValue(sel)
			}
		}
		if a == nil || r == nil {
			continue
		}
		n++
		c.analysed(funcName(a))
		wa, wr := fieldsWritten(a, impl), fieldsWritten(r, impl)
		var missing []string
		for f := range wa {
			if !wr[f] {
				missing = append(missing, f)
			}
		}
		sort.Strings(missing)
		key := "accumulator " + impl.Obj().Name() + " Reset covers Accumulate"
		if len(missing) > 0 {
			c.bad(key, r.Pos(), "%s.Accumulate writes field(s) %v that Reset does not re-initialise: the value accumulated for one group is carried into the next group's count/sum", impl.Obj().Name(), missing)
		} else {
			c.ok(key, r.Pos(), "fields written by Accumulate %v are all re-initialised by Reset", keys(wa))
		}
		// Reset stores the initial state, not the running one
		if len(wa) > 0 {
			bad := false
			allInstrs(r, func(in ssa.Instruction) {
				if st, ok := in.(*ssa.Store); ok {
					if fa, ok := st.Addr.(*ssa.FieldAddr); ok && wa[fieldName(fa.X.Type(), fa.Field)] {
						// the stored value must not be derived from the same field
						t := c.term(st.Val)
						if strings.Contains(t, "."+fieldName(fa.X.Type(), fa.Field)) {
							bad = true
						}
					}
				}
			})
			c.check(!bad, "accumulator "+impl.Obj().Name()+" Reset restores an initial value", r.Pos(), "Reset assigns a constant, a fresh map or the saved initial state", "Reset assigns the running state to itself")
		}
	}
	if n < 4 {
		c.undecided("Accumulator implementations", token.NoPos, "only %d found", n)
	}
	// A2
	for _, name := range []string{"Table.unsafeFullGroupRangeReduce"} {
		fn := c.mustFunc("bql/table", name)
		if fn == nil {
			continue
		}
		fi := c.fi(fn)
		var resets, accs []ssa.Instruction
		allInstrs(fn, func(in ssa.Instruction) {
			if call, ok := in.(*ssa.Call); ok && call.Call.IsInvoke() && isNamed(call.Call.Value.Type(), modPath+"/bql/table", "Accumulator") {
				switch call.Call.Method.Name() {
				case "Reset":
					resets = append(resets, in)
				case "Accumulate":
					accs = append(accs, in)
				}
			}
		})
		key := funcName(fn) + " resets accumulators before accumulating a group"
		if len(resets) == 0 || len(accs) == 0 {
			c.bad(key, fn.Pos(), "%d Reset and %d Accumulate calls in the group reducer: accumulators are not reset per group", len(resets), len(accs))
			continue
		}
		// the outermost loop containing the Reset call must be left before the Accumulate loop is entered
		// the outermost natural loop containing the block (the accumulator loops are nested two deep)
		loopOf := func(b *ssa.BasicBlock) []int {
			var best map[int]bool
			for _, l := range fi.naturalLoops() {
				if l.blocks[b.Index] && len(l.blocks) > len(best) {
					best = l.blocks
				}
			}
			var out []int
			for bi := range best {
				out = append(out, bi)
			}
			sort.Ints(out)
			return out
		}
		okOrder := true
		for _, r := range resets {
			lr := loopOf(r.Block())
			inLR := map[int]bool{}
			for _, bi := range lr {
				inLR[bi] = true
			}
			// header = block of the loop with a predecessor outside
			header := -1
			for _, bi := range lr {
				for _, p := range fi.preds[bi] {
					if !inLR[p] {
						header = bi
					}
				}
			}
			for _, a := range accs {
				if inLR[a.Block().Index] || header < 0 || !fi.dominates(fn.Blocks[header], a.Block()) {
					okOrder = false
				}
			}
		}
		// the reset is unconditional: apart from the loops over the accumulators, the nil test of the accumulator and the
		// range validation at the top, no branch condition may guard it
		extra := ""
		for _, r := range resets {
			for _, ft := range fi.factsAt(r.Block()) {
				t := c.term(ft.Cond)
				switch {
				case strings.Contains(t, ".Acc") && strings.Contains(t, "nil"):
				case strings.Contains(t, "next(range("):
				case strings.Contains(t, "param:i > param:j"):
				case strings.Contains(t, "< len("):
				default:
					extra = t
				}
			}
		}
		if extra != "" {
			okOrder = false
		}
		c.check(okOrder, key, resets[0].Pos(), "the reset loop is unconditional and completed before the accumulation loop starts, on every path", "an Accumulate call is not preceded by an unconditional, completed reset of every accumulator (extra condition: "+truncate(extra, 80)+"): state from the previous group is added to this one")
	}
}

func keys(m map[string]bool) []string {
	var out []string
	for k := range m {
		out = append(out, k)
	}
	sort.Strings(out)
	return out
}

// ---- P13 sort key discipline in rowLess -----------------------------------------------------------------------

func ruleP13(c *Ctx) {
	c.Rule("P13", "the row comparator honours the ORDER BY list: rowLess compares both rows under the first key's binding, passes that key's direction to the string comparison, and moves on to the remaining keys exactly when the rows are equal on this key and it is not the last", 3)
	fn := c.mustFunc("bql/table", "rowLess")
	if fn == nil {
		return
	}
	fi := c.fi(fn)
	// the string comparison (in rowLess or in the same-package helper that compares one key), the recursive call if any
	var sl, rec *ssa.Call
	var slTop ssa.Instruction
	var slFn *ssa.Function
	walkHelpers(fn, 2, func(inFn *ssa.Function, in ssa.Instruction, top ssa.Instruction) {
		if call, ok := in.(*ssa.Call); ok {
			if f := call.Call.StaticCallee(); f != nil {
				if fnName(f) == "stringLess" && sl == nil {
					sl, slTop, slFn = call, top, inFn
				}
				if f == fn && inFn == fn {
					rec = call
				}
			}
		}
	})
	if sl == nil {
		c.bad("rowLess compares with stringLess", fn.Pos(), "rowLess no longer calls stringLess")
		return
	}
	cfgParam := fn.Params[2].Name()
	unparen := func(t string) string { return strings.NewReplacer("(", "", ")", "").Replace(t) }
	// terms are read with the helper's parameters bound to rowLess's arguments
	var dt string
	var lookups []string
	collect := func() {
		dt = unparen(c.term(sl.Call.Args[2]))
		allInstrs(slFn, func(in ssa.Instruction) {
			if lk, ok := in.(*ssa.Lookup); ok && isNamed(lk.X.Type(), modPath+"/bql/table", "Row") {
				lookups = append(lookups, unparen(c.term(lk.X)+"["+c.term(lk.Index)+"]"))
			}
		})
	}
	if slFn == fn {
		collect()
	} else if tc, ok := slTop.(*ssa.Call); ok {
		intoHelper(slFn, &tc.Call, collect)
	}
	// the key is the first element of the (remaining) key list: param c itself, or the loop variable that starts as c
	// and is re-sliced c[1:] (written phi(param:c | …) by the termer)
	firstKey := func(t, field string) bool {
		return strings.HasSuffix(t, "[0]."+field) && strings.Contains(t, "param:"+cfgParam)
	}
	c.check(firstKey(dt, "Desc"), "rowLess passes the key's direction", sl.Pos(), "stringLess(…, c[0].Desc)", "the direction passed to stringLess is "+dt+", not the first key's Desc: DESC keys sort ascending (or the other way round)")
	// both lookups use c[0].Binding, one per row
	sort.Strings(lookups)
	lookups = uniq(lookups)
	okLk := len(lookups) == 2
	var keyTerms []string
	for _, l := range lookups {
		k := l[strings.Index(l, "[")+1:]
		k = strings.TrimSuffix(k, "]")
		keyTerms = append(keyTerms, k)
		if !firstKey(k, "Binding") {
			okLk = false
		}
	}
	if okLk {
		okLk = keyTerms[0] == keyTerms[1] && strings.HasPrefix(lookups[0], "param:"+fn.Params[0].Name()+"[") && strings.HasPrefix(lookups[1], "param:"+fn.Params[1].Name()+"[")
	}
	c.check(okLk, "rowLess reads both rows under the first key's binding", fn.Pos(), "ri[c[0].Binding] and rj[c[0].Binding]", fmt.Sprintf("row lookups are %v", lookups))
	// moving on to the remaining keys exactly on equality and not last: by a recursive call on c[1:], or by re-slicing
	// the key list c = c[1:] inside a loop
	var step ssa.Instruction
	cmpVal := ssa.Value(sl)
	if slFn != fn {
		if tc, ok := slTop.(*ssa.Call); ok {
			cmpVal = tc
		}
	}
	if rec != nil {
		step = rec
	} else {
		allInstrs(fn, func(in ssa.Instruction) {
			if sli, ok := in.(*ssa.Slice); ok && sli.High == nil && fi.innermostLoop(in.Block().Index) != nil {
				if k, isC := constInt(sli.Low); isC && k == 1 && strings.Contains(c.term(sli.X), "param:"+cfgParam) {
					step = in
				}
			}
		})
	}
	if step == nil {
		c.bad("rowLess moves on to the remaining keys", fn.Pos(), "no recursive call and no loop step on the remaining keys: rows equal on the first key are never ordered by the second")
		return
	}
	less, greater, last := false, false, false
	for _, ft := range fi.factsAt(step.Block()) {
		bo, ok := ft.Cond.(*ssa.BinOp)
		if ok && bo.X == cmpVal {
			if k, isC := constInt(bo.Y); isC && k == 0 {
				if bo.Op == token.LSS && !ft.Truth {
					less = true
				}
				if bo.Op == token.GTR && !ft.Truth {
					greater = true
				}
				if (bo.Op == token.EQL && ft.Truth) || (bo.Op == token.NEQ && !ft.Truth) {
					less, greater = true, true
				}
			}
		}
		t := c.term(ft.Cond)
		if strings.Contains(t, "len(") && strings.Contains(t, "param:"+cfgParam) && strings.HasSuffix(t, "== 1)") && !ft.Truth {
			last = true
		}
	}
	c.check(less && greater && last, "rowLess moves on to the remaining keys", step.Pos(), "the step to c[1:] is reached exactly when the comparison is 0 and this is not the last key", "the step to the remaining keys is not confined to 'equal on this key and not the last key'")
}

// ---- E1 HAVING comparisons test the kind first ---------------------------------------------------------------------

func ruleE1(c *Ctx) {
	c.Rule("E1", "a HAVING comparison of a binding with a constant of another kind never holds: each comparisonFor* evaluator reaches its comparison only after testing that the row cell carries the field of the constant's kind (L/S for literals, N for nodes, T for times, P for predicates)", 4)
	want := map[string][]string{
		"comparisonForLiteral":          {"L", "S"},
		"comparisonForNodeLiteral":      {"N"},
		"comparisonForTimeLiteral":      {"T"},
		"comparisonForPredicateLiteral": {"P"},
	}
	var names []string
	for n := range want {
		names = append(names, n)
	}
	sort.Strings(names)
	for _, tn := range names {
		fn := c.mustFunc("bql/semantic", tn+".Evaluate")
		if fn == nil {
			continue
		}
		fi := c.fi(fn)
		// sinks: string ==,<,> on values, and time Equal/Before/After
		var sinks []ssa.Instruction
		// a same-package helper that does the comparison on values handed to it: the call is the sink
		var compares func(f *ssa.Function, d int) bool
		compares = func(f *ssa.Function, d int) bool {
			res := false
			allInstrs(f, func(in ssa.Instruction) {
				switch x := in.(type) {
				case *ssa.BinOp:
					if types.Identical(x.X.Type().Underlying(), types.Typ[types.String]) && (x.Op == token.EQL || x.Op == token.LSS || x.Op == token.GTR) {
						_, px := x.X.(*ssa.Parameter)
						_, py := x.Y.(*ssa.Parameter)
						if px && py {
							res = true
						}
					}
				case *ssa.Call:
					if callee := helperCallee(f, &x.Call); callee != nil && d < 2 && compares(callee, d+1) {
						res = true
					}
				}
			})
			return res
		}
		allInstrs(fn, func(in ssa.Instruction) {
			switch x := in.(type) {
			case *ssa.BinOp:
				if types.Identical(x.X.Type().Underlying(), types.Typ[types.String]) && (x.Op == token.EQL || x.Op == token.LSS || x.Op == token.GTR) {
					if _, isC := x.Y.(*ssa.Const); !isC {
						sinks = append(sinks, in)
					}
				}
			case *ssa.Call:
				if callee := helperCallee(fn, &x.Call); callee != nil && compares(callee, 0) {
					sinks = append(sinks, in)
				}
				if f := x.Call.StaticCallee(); f != nil && f.Signature.Recv() != nil && isNamed(f.Signature.Recv().Type(), "time", "Time") && (f.Name() == "Equal" || f.Name() == "Before" || f.Name() == "After") {
					sinks = append(sinks, in)
				}
			}
		})
		key := "(*semantic." + tn + ").Evaluate tests the cell kind first"
		if len(sinks) == 0 {
			c.undecided(key, fn.Pos(), "no comparison found")
			continue
		}
		okAll := true
		for _, s := range sinks {
			guarded := false
			// a guard is: field F of the row cell known non-nil at the sink, or (for the two-field case) the conjunction "L == nil && S == nil" known false
			nilKnown := map[string]bool{}
			for _, ft := range fi.factsAt(s.Block()) {
				bo, ok := ft.Cond.(*ssa.BinOp)
				if !ok || !isNilConst(bo.Y) {
					continue
				}
				t := c.term(bo.X)
				for _, f := range want[tn] {
					if strings.HasSuffix(t, "#0."+f) || strings.HasSuffix(t, "."+f) {
						nonNil := (bo.Op == token.NEQ) == ft.Truth
						if nonNil {
							guarded = true
						} else {
							nilKnown[f] = true
						}
					}
				}
			}
			// L == nil known and the function returned when both were nil => S != nil
			if !guarded && len(want[tn]) == 2 && len(nilKnown) >= 1 {
				guarded = true
			}
			if !guarded && len(want[tn]) == 2 {
				// reached past `if L == nil && S == nil { return }`: at least one is non-nil. Accept if such a return exists and dominates the sink's block.
				for _, r := range c.returnsOf(fn) {
					both := 0
					for _, ft := range fi.factsAt(r.Block()) {
						if bo, ok := ft.Cond.(*ssa.BinOp); ok && isNilConst(bo.Y) && bo.Op == token.EQL && ft.Truth {
							t := c.term(bo.X)
							if strings.HasSuffix(t, ".L") || strings.HasSuffix(t, ".S") {
								both++
							}
						}
					}
					if both == 2 {
						guarded = true
					}
				}
			}
			if !guarded {
				okAll = false
			}
		}
		if tn == "comparisonForLiteral" {
			// literal cells: the literal types of both sides were compared directly
			typed := false
			allInstrs(fn, func(in ssa.Instruction) {
				iff, ok := in.(*ssa.If)
				if !ok {
					return
				}
				bo, ok := iff.Cond.(*ssa.BinOp)
				if !ok || (bo.Op != token.NEQ && bo.Op != token.EQL) {
					return
				}
				tx, ty := c.term(bo.X), c.term(bo.Y)
				if !(strings.HasPrefix(tx, "(*literal.Literal).Type(") && strings.HasPrefix(ty, "(*literal.Literal).Type(") && tx != ty) {
					return
				}
				diff := iff.Block().Succs[0]
				if bo.Op == token.EQL {
					diff = iff.Block().Succs[1]
				}
				if r, ok := diff.Instrs[len(diff.Instrs)-1].(*ssa.Return); ok {
					if k, ok := resultValues(r)[0].(*ssa.Const); ok && k.Value != nil && !constant.BoolVal(k.Value) {
						typed = true
					}
				}
			})
			// ... and on every path: each comparison is reached either past that test's "same type" edge or with the
			// cell known not to be a literal (the string-cell path is typed by the Text test instead)
			if typed {
				isTypeTest := func(v ssa.Value) (*ssa.BinOp, bool) {
					bo, ok := v.(*ssa.BinOp)
					if !ok || (bo.Op != token.NEQ && bo.Op != token.EQL) {
						return nil, false
					}
					tx, ty := c.term(bo.X), c.term(bo.Y)
					return bo, strings.HasPrefix(tx, "(*literal.Literal).Type(") && strings.HasPrefix(ty, "(*literal.Literal).Type(") && tx != ty
				}
				edge := func(st bool, b *ssa.BasicBlock, si int) (bool, bool) {
					iff, ok := b.Instrs[len(b.Instrs)-1].(*ssa.If)
					if !ok {
						return st, true
					}
					if bo, ok := isTypeTest(iff.Cond); ok {
						sameEdge := 1
						if bo.Op == token.EQL {
							sameEdge = 0
						}
						if si == sameEdge {
							return true, true
						}
						return st, true
					}
					if bo, ok := iff.Cond.(*ssa.BinOp); ok && (bo.Op == token.NEQ || bo.Op == token.EQL) && isNilConst(bo.Y) && strings.HasSuffix(c.term(bo.X), ".L") {
						nilEdge := 1
						if bo.Op == token.EQL {
							nilEdge = 0
						}
						if si == nilEdge {
							return true, true
						}
					}
					return st, true
				}
				_, at := flow(c, fn, false, func(st bool, _ ssa.Instruction) bool { return st }, edge)
				for _, sk := range sinks {
					if at(sk)[false] {
						typed = false
					}
				}
			}
			c.check(typed, "(*semantic.comparisonForLiteral).Evaluate compares literals of the same type only", fn.Pos(), "a direct test cell.L.Type() != constant.Type() returns false", "the literal comparison is reachable without the two literal types having been compared for equality (directly): an int64 is compared with a float64 (or any other mixed pair) through their padded renderings, so the condition can hold for values of different kinds")
		}
		c.check(okAll, key, fn.Pos(), fmt.Sprintf("%d comparison(s), each reached only after the cell's %v field was tested", len(sinks), want[tn]), fmt.Sprintf("a comparison in %s.Evaluate is reachable without testing that the cell carries a %v value: a binding of another kind is compared by its rendering and may satisfy the condition", tn, want[tn]))
	}
}
