package main

import (
	"fmt"
	"go/constant"
	"go/token"
	"go/types"
	"sort"
	"strings"

	"golang.org/x/tools/go/ssa"
)

// hashMethods: methods in triple/... returning uuid.UUID (the identity functions of C06).
func (c *Ctx) hashMethods() []*ssa.Function {
	var out []*ssa.Function
	for _, fn := range c.srcFuncs("triple", "triple/node", "triple/predicate", "triple/literal") {
		if fn.Parent() != nil || fn.Signature.Recv() == nil || fn.Signature.Results().Len() != 1 {
			continue
		}
		if !isNamed(fn.Signature.Results().At(0).Type(), "github.com/pborman/uuid", "UUID") {
			continue
		}
		out = append(out, fn)
	}
	return out
}

// hashFuncs: the identity methods plus the same-package helpers they call (to depth 2) — where an identity method's
// encoding work may have been moved to.
func (c *Ctx) hashFuncs() []*ssa.Function {
	var out []*ssa.Function
	seen := map[*ssa.Function]bool{}
	var add func(f *ssa.Function, d int)
	add = func(f *ssa.Function, d int) {
		if seen[f] {
			return
		}
		seen[f] = true
		out = append(out, f)
		if d >= 2 {
			return
		}
		allInstrs(f, func(in ssa.Instruction) {
			if cc := callCommon(in); cc != nil {
				if callee := helperCallee(f, cc); callee != nil {
					add(callee, d+1)
				}
			}
		})
	}
	for _, f := range c.hashMethods() {
		add(f, 0)
	}
	return out
}

// ---- H1 varint capacity ----------------------------------------------------------

func constInt(v ssa.Value) (int64, bool) {
	k, ok := v.(*ssa.Const)
	if !ok || k.Value == nil || k.Value.Kind() != constant.Int {
		return 0, false
	}
	n, ok := constant.Int64Val(k.Value)
	return n, ok
}

// bufLen resolves the constant length of a []byte buffer value (make([]byte, K), possibly through a full slice), or -1.
func bufLen(v ssa.Value) int64 {
	switch x := v.(type) {
	case *ssa.MakeSlice:
		if n, ok := constInt(x.Len); ok {
			return n
		}
	case *ssa.Slice:
		if al, ok := x.X.(*ssa.Alloc); ok && x.Low == nil && x.High != nil {
			if n, ok := constInt(x.High); ok {
				if arr, ok := al.Type().Underlying().(*types.Pointer).Elem().Underlying().(*types.Array); ok && arr.Len() == n {
					return n
				}
			}
		}
		if x.Low == nil && x.High == nil {
			// slicing a local array: new [K]byte
			if al, ok := x.X.(*ssa.Alloc); ok {
				if arr, ok := al.Type().Underlying().(*types.Pointer).Elem().Underlying().(*types.Array); ok {
					return arr.Len()
				}
			}
			return bufLen(x.X)
		}
	}
	return -1
}

func ruleH1(c *Ctx) {
	c.Rule("H1", "every buffer handed to binary.PutVarint/PutUvarint with a 64-bit value has constant capacity >= binary.MaxVarintLen64 (10); a shorter buffer panics at run time for large magnitudes", 3)
	for _, fn := range c.srcFuncs() {
		allInstrs(fn, func(in ssa.Instruction) {
			call, ok := in.(*ssa.Call)
			if !ok || !(isCallTo(&call.Call, "encoding/binary", "PutVarint") || isCallTo(&call.Call, "encoding/binary", "PutUvarint")) {
				return
			}
			c.analysed(funcName(fn))
			key := funcName(fn) + " " + call.Call.StaticCallee().Name() + " buffer"
			n := bufLen(call.Call.Args[0])
			switch {
			case n < 0:
				c.undecided(key, in.Pos(), "buffer length is not a constant make([]byte, K): %s", c.term(call.Call.Args[0]))
			case n < 10:
				c.bad(key, in.Pos(), "buffer of %d bytes; a 64-bit varint needs up to 10, so the call panics for large magnitudes", n)
			default:
				c.ok(key, in.Pos(), "buffer of %d bytes >= MaxVarintLen64", n)
			}
		})
	}
}

// ---- H2 hash framing ---------------------------------------------------------------

type seg struct {
	kind string // const | fixed | var | uuid16 | delegate
	s    string
	n    int64
}

func (s seg) String() string {
	switch s.kind {
	case "const":
		return fmt.Sprintf("Const(%q)", s.s)
	case "fixed":
		return fmt.Sprintf("Fixed(%d)", s.n)
	case "var":
		return "Var(" + s.s + ")"
	case "uuid16":
		return "UUID16(" + s.s + ")"
	case "delegate":
		return "Delegate(" + s.s + ")"
	}
	return s.kind
}

func segsString(ss []seg) string {
	var p []string
	for _, s := range ss {
		p = append(p, s.String())
	}
	return "[" + strings.Join(p, " ‖ ") + "]"
}

// classifyBytes abstracts a value written into the hash input.
func (c *Ctx) classifyBytes(v ssa.Value) seg {
	v = resolveParam(v)
	switch x := v.(type) {
	case *ssa.Call:
		// a same-package helper producing the bytes: a fixed-length segment if every return has the same constant length
		if x.Parent() != nil {
			if callee := helperCallee(x.Parent(), &x.Call); callee != nil && callee.Signature.Results().Len() == 1 {
				n := int64(-2)
				for _, r := range c.returnsOf(callee) {
					k := bufLen(resultValues(r)[0])
					if k < 0 || (n != -2 && k != n) {
						n = -1
						break
					}
					n = k
				}
				if n >= 0 {
					return seg{kind: "fixed", n: n}
				}
			}
		}
	case *ssa.Const:
		if x.Value != nil && x.Value.Kind() == constant.String {
			return seg{kind: "const", s: constant.StringVal(x.Value)}
		}
	case *ssa.Convert:
		return c.classifyBytes(x.X)
	case *ssa.ChangeType:
		return c.classifyBytes(x.X)
	case *ssa.MakeSlice:
		if n, ok := constInt(x.Len); ok {
			return seg{kind: "fixed", n: n}
		}
	case *ssa.Slice:
		if n := bufLen(x); n >= 0 {
			return seg{kind: "fixed", n: n}
		}
		if x.Low == nil && x.High != nil {
			if n, ok := constInt(x.High); ok {
				return seg{kind: "fixed", n: n}
			}
		}
		return seg{kind: "var", s: "len-varying slice " + c.term(x)}
	}
	return seg{kind: "var", s: c.term(v)}
}

type hashPath struct {
	segs   []seg
	blocks []int
	ret    *ssa.Return
	bad    string
}

// hashPaths enumerates the paths of an acyclic hash method and the byte segments hashed on each.
func (c *Ctx) hashPaths(fn *ssa.Function) ([]hashPath, string) {
	fi := c.fi(fn)
	for _, b := range fn.Blocks {
		if fi.reachable(b) && inLoop(fi, b) {
			return nil, "the method contains a loop"
		}
	}
	var out []hashPath
	var undec string
	type copyEv struct {
		lo, hi int64 // hi = -1: to the end
		src    string
	}
	var walkFrom func(b *ssa.BasicBlock, start int, segs []seg, copies []copyEv, blocks []int)
	walk := func(b *ssa.BasicBlock, segs []seg, copies []copyEv, blocks []int) {
		walkFrom(b, 0, segs, copies, append(append([]int{}, blocks...), b.Index))
	}
	walkFrom = func(b *ssa.BasicBlock, start int, segs []seg, copies []copyEv, blocks []int) {
		segs = append([]seg{}, segs...)
		copies = append([]copyEv{}, copies...)
		for idx := start; idx < len(b.Instrs); idx++ {
			in := b.Instrs[idx]
			call, isCall := in.(*ssa.Call)
			if isCall {
				cc := &call.Call
				// a same-package helper that is handed the buffer: what it writes, path by path
				if callee := helperCallee(fn, cc); callee != nil {
					bi := -1
					for i, a := range cc.Args {
						if isNamed(derefType(a.Type()), "bytes", "Buffer") {
							bi = i
						}
					}
					if bi >= 0 && bi < len(callee.Params) {
						var alts [][]seg
						why := ""
						intoHelper(callee, cc, func() { alts, why = c.bufferWrites(callee, callee.Params[bi], 0) })
						if why != "" {
							undec = "helper " + funcName(callee) + " writing into the buffer: " + why
							return
						}
						for _, alt := range alts {
							walkFrom(b, idx+1, append(append([]seg{}, segs...), alt...), copies, blocks)
						}
						return
					}
				}
				switch {
				case isCallTo(cc, "bytes", "Write") || isCallTo(cc, "bytes", "WriteString"):
					segs = append(segs, c.classifyBytes(cc.Args[1]))
				case isCallTo(cc, "bytes", "WriteByte") || isCallTo(cc, "bytes", "WriteRune"):
					segs = append(segs, seg{kind: "fixed", n: 1})
				case isBuiltinCall(cc, "copy"):
					ev := copyEv{lo: 0, hi: -1, src: c.term(cc.Args[1])}
					if sl, ok := cc.Args[0].(*ssa.Slice); ok {
						if sl.Low != nil {
							ev.lo, _ = constInt(sl.Low)
						}
						if sl.High != nil {
							ev.hi, _ = constInt(sl.High)
						}
					}
					copies = append(copies, ev)
				}
			}
			if r, ok := in.(*ssa.Return); ok {
				hp := hashPath{blocks: blocks, ret: r}
				v := resultValues(r)[0]
				rc, ok := v.(*ssa.Call)
				switch {
				case ok && isCallTo(&rc.Call, "github.com/pborman/uuid", "NewSHA1"):
					data := rc.Call.Args[1]
					if dc, ok := data.(*ssa.Call); ok && isCallTo(&dc.Call, "bytes", "Bytes") {
						hp.segs = segs
					} else if len(copies) > 0 {
						sort.Slice(copies, func(i, j int) bool { return copies[i].lo < copies[j].lo })
						next := int64(0)
						for _, ev := range copies {
							if ev.lo != next {
								hp.bad = fmt.Sprintf("copied ranges do not tile the buffer: gap or overlap at offset %d", next)
							}
							hp.segs = append(hp.segs, seg{kind: "uuid16", s: ev.src})
							if ev.hi < 0 {
								next = -1
							} else {
								next = ev.hi
							}
						}
						if next != -1 && next != 48 {
							hp.bad = fmt.Sprintf("copied ranges end at %d, not at the end of the buffer", next)
						}
					} else {
						hp.segs = []seg{c.classifyBytes(data)}
					}
				case ok && rc.Call.StaticCallee() != nil && rc.Call.StaticCallee().Signature.Recv() != nil && (rc.Call.StaticCallee().Name() == "UUID" || rc.Call.StaticCallee().Name() == "PartialUUID"):
					hp.segs = []seg{{kind: "delegate", s: funcName(rc.Call.StaticCallee())}}
				default:
					undec = "a return value is neither uuid.NewSHA1(...) nor a delegated UUID: " + c.term(v)
				}
				out = append(out, hp)
			}
		}
		if fi.cutAt[b.Index] >= 0 {
			return
		}
		for _, s := range b.Succs {
			if fn.Recover != nil && s == fn.Recover {
				continue
			}
			walk(s, segs, copies, blocks)
		}
	}
	walk(fn.Blocks[0], nil, nil, nil)
	return out, undec
}

// bufferWrites enumerates, for an acyclic helper that is handed the hash buffer as parameter buf, the sequences of
// segments it writes into it (one per path). Must be called with the helper's parameters bound (intoHelper).
func (c *Ctx) bufferWrites(fn *ssa.Function, buf *ssa.Parameter, depth int) ([][]seg, string) {
	fi := c.fi(fn)
	for _, b := range fn.Blocks {
		if fi.reachable(b) && inLoop(fi, b) {
			return nil, "it contains a loop"
		}
	}
	if depth > 2 {
		return nil, "helpers nested too deep"
	}
	var out [][]seg
	why := ""
	var walkFrom func(b *ssa.BasicBlock, start int, segs []seg)
	walkFrom = func(b *ssa.BasicBlock, start int, segs []seg) {
		segs = append([]seg{}, segs...)
		for idx := start; idx < len(b.Instrs); idx++ {
			in := b.Instrs[idx]
			if call, ok := in.(*ssa.Call); ok {
				cc := &call.Call
				onBuf := len(cc.Args) > 0 && cc.Args[0] == ssa.Value(buf)
				switch {
				case onBuf && (isCallTo(cc, "bytes", "Write") || isCallTo(cc, "bytes", "WriteString")):
					segs = append(segs, c.classifyBytes(cc.Args[1]))
				case onBuf && (isCallTo(cc, "bytes", "WriteByte") || isCallTo(cc, "bytes", "WriteRune")):
					segs = append(segs, seg{kind: "fixed", n: 1})
				default:
					if callee := helperCallee(fn, cc); callee != nil {
						for i, a := range cc.Args {
							if a == ssa.Value(buf) && i < len(callee.Params) {
								var alts [][]seg
								w := ""
								intoHelper(callee, cc, func() { alts, w = c.bufferWrites(callee, callee.Params[i], depth+1) })
								if w != "" {
									why = w
									return
								}
								for _, alt := range alts {
									walkFrom(b, idx+1, append(append([]seg{}, segs...), alt...))
								}
								return
							}
						}
					}
				}
			}
			if _, ok := in.(*ssa.Return); ok {
				out = append(out, segs)
				return
			}
		}
		if fi.cutAt[b.Index] >= 0 {
			return
		}
		for _, s := range b.Succs {
			walkFrom(s, 0, segs)
		}
	}
	walkFrom(fn.Blocks[0], 0, nil)
	return out, why
}

func isVarLen(s seg) bool { return s.kind == "var" }

// shortSeg names a variable segment by the last component of its provenance (field or asserted type), for stable keys.
func shortSeg(s seg) string {
	t := s.s
	if strings.HasPrefix(t, "len-varying slice") {
		return "len-varying slice"
	}
	if i := strings.LastIndexAny(t, ".("); i >= 0 && i+1 < len(t) {
		t = t[i+1:]
	}
	return strings.Trim(t, ")#0")
}

func ruleH2(c *Ctx) {
	c.Rule("H2", "the byte string that each identity method hashes determines the value: no two adjacent variable-length segments, no untagged alternative that is a bare variable-length segment or shares its fixed length with a sibling, no variable segment followed by an optional suffix, Triple.UUID = full UUIDs of subject, predicate, object tiling the buffer, no zone-dependent time rendering", 6)
	for _, fn := range c.hashMethods() {
		c.analysed(funcName(fn))
		key := funcName(fn) + " framing"
		paths, undec := c.hashPaths(fn)
		if undec != "" {
			c.undecided(key, fn.Pos(), "%s", undec)
			continue
		}
		if len(paths) == 0 {
			c.undecided(key, fn.Pos(), "no path to a return found")
			continue
		}
		var bad []string
		pat := map[string]string{} // pattern id -> message
		// zone-dependent rendering anywhere in the method
		allInstrs(fn, func(in ssa.Instruction) {
			if call, ok := in.(*ssa.Call); ok {
				if f := call.Call.StaticCallee(); f != nil && f.Signature.Recv() != nil && isNamed(f.Signature.Recv().Type(), "time", "Time") {
					switch f.Name() {
					case "Format", "String", "AppendFormat", "MarshalText", "MarshalJSON", "Zone", "Location", "Hour", "Day":
						pat["zone-dependent time."+f.Name()] = fmt.Sprintf("hashes a zone-dependent rendering of the anchor (time.Time.%s) at %s: equal instants in different zones get different UUIDs", f.Name(), c.pos(in.Pos()))
					}
				}
			}
		})
		// distinct shapes
		shapes := map[string][]seg{}
		var order []string
		for _, p := range paths {
			if p.bad != "" {
				bad = append(bad, p.bad)
			}
			s := segsString(p.segs)
			if _, ok := shapes[s]; !ok {
				shapes[s] = p.segs
				order = append(order, s)
			}
		}
		sort.Strings(order)
		for _, s := range order {
			ss := shapes[s]
			for i := 0; i+1 < len(ss); i++ {
				if isVarLen(ss[i]) && isVarLen(ss[i+1]) {
					pat["adjacent variable segments "+shortSeg(ss[i])+"‖"+shortSeg(ss[i+1])] = fmt.Sprintf("%s: two adjacent variable-length segments without a delimiter (different splits of the same bytes collide)", s)
				}
			}
		}
		// alternatives
		if len(order) > 1 {
			// common prefix
			pre := 0
			for {
				okp := true
				for _, s := range order {
					if pre >= len(shapes[s]) || shapes[s][pre].String() != shapes[order[0]][pre].String() {
						okp = false
					}
				}
				if !okp {
					break
				}
				pre++
			}
			prefixVar := pre > 0 && isVarLen(shapes[order[0]][pre-1])
			deleg := 0
			for i, s := range order {
				rest := shapes[s][pre:]
				if len(rest) == 0 && prefixVar {
					pat["optional suffix after variable segment"] = fmt.Sprintf("alternative %s ends right after a variable-length segment while a sibling appends a suffix: the variable part can absorb the suffix", s)
				}
				if len(rest) == 1 && isVarLen(rest[0]) {
					pat["untagged bare variable alternative "+shortSeg(rest[0])] = fmt.Sprintf("untagged alternative %s is a bare variable-length segment: it can reproduce the bytes of every sibling alternative", s)
				}
				if len(rest) == 1 && rest[0].kind == "delegate" {
					deleg++
				}
				for _, s2 := range order[i+1:] {
					r2 := shapes[s2][pre:]
					if len(rest) == 1 && len(r2) == 1 && rest[0].kind == "fixed" && r2[0].kind == "fixed" && rest[0].n == r2[0].n {
						pat[fmt.Sprintf("untagged alternatives of equal fixed length %d", rest[0].n)] = fmt.Sprintf("untagged alternatives %s and %s have the same fixed length: values of different kinds with equal bytes collide", s, s2)
					}
					if len(rest) == 1 && len(r2) == 1 && rest[0].kind == "const" && r2[0].kind == "fixed" && int64(len(rest[0].s)) == r2[0].n {
						pat["constant alternative with the length of a fixed one"] = fmt.Sprintf("constant alternative %s has the length of fixed alternative %s", s, s2)
					}
				}
			}
			if deleg > 1 {
				pat["untagged delegation to different kinds"] = fmt.Sprintf("%d alternatives delegate to the identity of different kinds of value without a kind tag: a value of one kind collides with a value of another whose hashed bytes are equal", deleg)
			}
		}
		// Triple.UUID composition
		if isNamed(fn.Signature.Recv().Type(), modPath+"/triple", "Triple") && fn.Name() == "UUID" {
			want := map[string]bool{"S": false, "P": false, "O": false}
			for _, s := range order {
				for _, sg := range shapes[s] {
					if sg.kind != "uuid16" {
						bad = append(bad, "Triple.UUID hashes something other than component UUIDs: "+sg.String())
						continue
					}
					switch {
					case strings.HasPrefix(sg.s, "(*node.Node).UUID("):
						want["S"] = true
					case strings.HasPrefix(sg.s, "(*predicate.Predicate).UUID("):
						want["P"] = true
					case strings.HasPrefix(sg.s, "(*triple.Object).UUID("):
						want["O"] = true
					default:
						bad = append(bad, "Triple.UUID component is not hashed by its full UUID: "+sg.s)
					}
				}
			}
			for k, v := range want {
				if !v {
					bad = append(bad, "Triple.UUID does not include the full UUID of component "+k)
				}
			}
			// on every path: subject, predicate, object, each from its own component, in that order
			wantPrefix := []string{"(*node.Node).UUID(", "(*predicate.Predicate).UUID(", "(*triple.Object).UUID("}
			for _, s := range order {
				sh := shapes[s]
				okShape := len(sh) == 3
				for i := 0; okShape && i < 3; i++ {
					if sh[i].kind != "uuid16" || !strings.HasPrefix(sh[i].s, wantPrefix[i]) {
						okShape = false
					}
				}
				if !okShape {
					bad = append(bad, "on some path Triple.UUID hashes "+s+" instead of (subject UUID ‖ predicate UUID ‖ object UUID): a slot filled from another component makes different triples share an identity")
				}
			}
		}
		sort.Strings(bad)
		for id, msg := range pat {
			c.bad(key+": "+id, fn.Pos(), "%s", msg)
		}
		if len(bad) > 0 {
			c.bad(key, fn.Pos(), "%s", strings.Join(uniq(bad), "; "))
		} else if len(pat) == 0 {
			c.ok(key, fn.Pos(), "%d paths, shapes %s: none of the certain non-injectivity patterns", len(paths), strings.Join(order, " | "))
		}
	}
	// Triple.Equal compares UUIDs
	if eq := c.lookupFunc("triple", "Triple.Equal"); eq != nil {
		c.analysed(funcName(eq))
		okAll, n := true, 0
		for _, r := range c.returnsOf(eq) {
			n++
			v := resultValues(r)[0]
			call, ok := v.(*ssa.Call)
			if !ok || !isCallTo(&call.Call, "github.com/pborman/uuid", "Equal") {
				okAll = false
				continue
			}
			for i, a := range call.Call.Args {
				ac, ok := a.(*ssa.Call)
				if !ok || ac.Call.StaticCallee() == nil || ac.Call.StaticCallee().Name() != "UUID" || !isValueOfParam(ac.Call.Args[0], eq.Params[i]) {
					okAll = false
				}
			}
		}
		c.check(okAll && n > 0, "(*triple.Triple).Equal", eq.Pos(), "every return is uuid.Equal(t.UUID(), t2.UUID())", "a return of Triple.Equal is not uuid.Equal of the two triples' UUIDs: equality and identity can disagree")
	} else {
		c.undecided("(*triple.Triple).Equal", token.NoPos, "method not found")
	}
}

// ---- H3 determinism ------------------------------------------------------------------

func ruleH3(c *Ctx) {
	c.Rule("H3", "an identity depends on nothing but the value: no identity method reaches a clock, random source, process id, fresh UUID or map iteration, and a pooled bytes.Buffer is Reset before its first write", 6)
	forbidden := func(f *ssa.Function) string {
		if f == nil {
			return ""
		}
		pkg := ""
		if f.Pkg != nil {
			pkg = f.Pkg.Pkg.Path()
		} else if o := f.Object(); o != nil && o.Pkg() != nil {
			pkg = o.Pkg().Path()
		}
		switch {
		case pkg == "time" && (f.Name() == "Now" || f.Name() == "Since"):
			return "time." + f.Name()
		case pkg == "math/rand" || pkg == "math/rand/v2" || pkg == "crypto/rand":
			return pkg + "." + f.Name()
		case pkg == "os" && (f.Name() == "Getpid" || f.Name() == "Hostname" || f.Name() == "Getenv"):
			return "os." + f.Name()
		case pkg == "github.com/pborman/uuid" && strings.HasPrefix(f.Name(), "New") && f.Name() != "NewSHA1" && f.Name() != "NewMD5" && f.Name() != "NewHash":
			return "uuid." + f.Name()
		}
		return ""
	}
	for _, fn := range c.hashMethods() {
		key := funcName(fn) + " determinism"
		var bad []string
		seen := map[*ssa.Function]bool{}
		var visit func(f *ssa.Function, depth int)
		visit = func(f *ssa.Function, depth int) {
			if f == nil || seen[f] || depth > 6 {
				return
			}
			seen[f] = true
			inModule := f.Pkg != nil && strings.HasPrefix(f.Pkg.Pkg.Path(), modPath)
			if !inModule {
				return
			}
			allInstrs(f, func(in ssa.Instruction) {
				if _, ok := in.(*ssa.Range); ok {
					if r := in.(*ssa.Range); r != nil {
						if _, isMap := r.X.Type().Underlying().(*types.Map); isMap {
							bad = append(bad, fmt.Sprintf("%s ranges over a map at %s", funcName(f), c.pos(in.Pos())))
						}
					}
				}
				cc := callCommon(in)
				if cc == nil {
					return
				}
				callee := cc.StaticCallee()
				if w := forbidden(callee); w != "" {
					bad = append(bad, fmt.Sprintf("%s calls %s at %s", funcName(f), w, c.pos(in.Pos())))
				}
				// %p formatting
				if callee != nil && callee.Pkg != nil && callee.Pkg.Pkg.Path() == "fmt" && len(cc.Args) > 0 {
					if k, ok := cc.Args[0].(*ssa.Const); ok && k.Value != nil && k.Value.Kind() == constant.String && strings.Contains(constant.StringVal(k.Value), "%p") {
						bad = append(bad, fmt.Sprintf("%s formats a pointer (%%p) at %s", funcName(f), c.pos(in.Pos())))
					}
				}
				visit(callee, depth+1)
			})
		}
		visit(fn, 0)
		// pooled buffer reset
		fi := c.fi(fn)
		allInstrs(fn, func(in ssa.Instruction) {
			ta, ok := in.(*ssa.TypeAssert)
			if !ok || !isNamed(ta.AssertedType, "bytes", "Buffer") {
				return
			}
			src, ok := ta.X.(*ssa.Call)
			if !ok || !isCallTo(&src.Call, "sync", "Get") {
				return
			}
			var reset ssa.Instruction
			var writes []ssa.Instruction
			for _, r := range *ta.Referrers() {
				if call, ok := r.(*ssa.Call); ok && len(call.Call.Args) > 0 && call.Call.Args[0] == ssa.Value(ta) {
					switch {
					case isCallTo(&call.Call, "bytes", "Reset"):
						reset = call
					case isCallTo(&call.Call, "bytes", "Write"), isCallTo(&call.Call, "bytes", "WriteString"), isCallTo(&call.Call, "bytes", "WriteByte"), isCallTo(&call.Call, "bytes", "Bytes"):
						writes = append(writes, call)
					}
				}
			}
			if reset == nil {
				bad = append(bad, fmt.Sprintf("pooled buffer obtained at %s is never Reset: bytes of an earlier value are hashed too", c.pos(in.Pos())))
				return
			}
			for _, w := range writes {
				if !fi.instrDominates(reset, w) {
					bad = append(bad, fmt.Sprintf("use of the pooled buffer at %s is not preceded by Reset on every path", c.pos(w.Pos())))
				}
			}
		})
		sort.Strings(bad)
		if len(bad) > 0 {
			c.bad(key, fn.Pos(), "%s", strings.Join(uniq(bad), "; "))
		} else {
			c.ok(key, fn.Pos(), "%d module functions reachable; no clock/random/pid/fresh-UUID/map-order/%%p dependency; pooled buffers reset first", len(seen))
		}
	}
}
