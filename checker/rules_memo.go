package main

import (
	"fmt"
	"go/constant"
	"go/token"
	"go/types"
	"sort"
	"strings"

	"golang.org/x/tools/go/ssa"
)

func (c *Ctx) memoAnchors() (gm, sm *types.Named, cacheFields map[*types.Var]bool, inner *types.Var) {
	gm = c.mustNamed("storage/memoization", "graphMemoizer")
	sm = c.mustNamed("storage/memoization", "storeMemoizer")
	if gm == nil || sm == nil {
		return nil, nil, nil, nil
	}
	cacheFields = map[*types.Var]bool{}
	for _, f := range mapFields(gm) {
		cacheFields[f] = true
	}
	st := gm.Underlying().(*types.Struct)
	for i := 0; i < st.NumFields(); i++ {
		if isNamed(st.Field(i).Type(), modPath+"/storage", "Graph") {
			inner = st.Field(i)
		}
	}
	if inner == nil || len(cacheFields) == 0 {
		c.undecided("graphMemoizer shape", gm.Obj().Pos(), "no wrapped storage.Graph field or no cache map found")
		return nil, nil, nil, nil
	}
	return
}

// ---- M1 key completeness -------------------------------------------------------------------------

// fieldsRead lists the struct fields of named type n read (directly) in fn through a value of that type.
func fieldsRead(fn *ssa.Function, n *types.Named) map[string]bool {
	out := map[string]bool{}
	allInstrs(fn, func(in ssa.Instruction) {
		switch x := in.(type) {
		case *ssa.FieldAddr:
			if namedOf(x.X.Type()) == n {
				out[fieldName(x.X.Type(), x.Field)] = true
			}
		case *ssa.Field:
			if namedOf(x.X.Type()) == n {
				out[fieldName(x.X.Type(), x.Field)] = true
			}
		}
	})
	return out
}

func ruleM1(c *Ctx) {
	c.Rule("M1", "the memoizer's cache key covers everything that selects a lookup's answer: every field of storage.LookupOptions (and of the nested filter.StorageOptions) is read by the function whose output is hashed into the key, and the key builder hashes that function's output", 8)
	lo := c.mustNamed("storage", "LookupOptions")
	str := c.mustFunc("storage", "LookupOptions.String")
	uu := c.mustFunc("storage", "LookupOptions.UUID")
	comb := c.mustFunc("storage/memoization", "combinedUUID")
	if lo == nil || str == nil || uu == nil || comb == nil {
		return
	}
	read := fieldsRead(str, lo)
	st := lo.Underlying().(*types.Struct)
	for i := 0; i < st.NumFields(); i++ {
		f := st.Field(i)
		key := "LookupOptions." + f.Name() + " in cache key"
		if read[f.Name()] {
			c.ok(key, f.Pos(), "read by LookupOptions.String")
		} else {
			c.bad(key, f.Pos(), "field %s of LookupOptions is not rendered by LookupOptions.String, which is what the memoizer hashes: two lookups differing only in %s share a cache entry", f.Name(), f.Name())
		}
	}
	// nested filter options: rendered with a verb that prints every field, or every field read
	so := c.mustNamed("bql/planner/filter", "StorageOptions")
	sostr := c.lookupFunc("bql/planner/filter", "StorageOptions.String")
	if so != nil {
		if sostr == nil {
			c.undecided("StorageOptions.String", so.Obj().Pos(), "method not found (the %%s verb in LookupOptions.String would print a pointer)")
		} else {
			all := false
			allInstrs(sostr, func(in ssa.Instruction) {
				if call, ok := in.(*ssa.Call); ok && isCallTo(&call.Call, "fmt", "Sprintf") {
					if k, ok := call.Call.Args[0].(*ssa.Const); ok && k.Value != nil && strings.Contains(constant.StringVal(k.Value), "%+v") || ok && k.Value != nil && strings.Contains(constant.StringVal(k.Value), "%v") {
						all = true
					}
				}
			})
			rd := fieldsRead(sostr, so)
			sst := so.Underlying().(*types.Struct)
			for i := 0; i < sst.NumFields(); i++ {
				f := sst.Field(i)
				c.check(all || rd[f.Name()], "StorageOptions."+f.Name()+" in cache key", f.Pos(), "rendered by StorageOptions.String", "field "+f.Name()+" of filter.StorageOptions is not rendered into the cache key")
			}
		}
	}
	// chain: combinedUUID -> lo.UUID() -> lo.String()
	calls := func(fn, callee *ssa.Function) bool { return len(callsTo(fn, callee)) > 0 }
	c.check(calls(uu, str), "LookupOptions.UUID hashes String()", uu.Pos(), "UUID() = SHA1(String())", "LookupOptions.UUID no longer hashes String(): the field coverage above says nothing about the key")
	c.check(calls(comb, uu), "combinedUUID includes lo.UUID()", comb.Pos(), "the options identity is part of every key", "combinedUUID no longer includes the lookup options: lookups with different options share cache entries")
	// the options hashed are the options of the lookup itself, not an edited copy
	allInstrs(comb, func(in ssa.Instruction) {
		cc := callCommon(in)
		if cc == nil || cc.StaticCallee() != uu || len(cc.Args) == 0 {
			return
		}
		_, isParam := cc.Args[0].(*ssa.Parameter)
		c.check(isParam, "combinedUUID hashes the options it was given", in.Pos(), "UUID() is taken of the parameter", "combinedUUID takes the UUID of "+truncate(c.term(cc.Args[0]), 60)+", not of the options the lookup was called with: lookups whose options differ in what was edited out share a cache entry although the wrapped store answers them differently")
	})
	// combinedUUID joins every component uuid
	usesAll := false
	allInstrs(comb, func(in ssa.Instruction) {
		if _, ok := in.(*ssa.Range); ok {
			usesAll = true
		}
		if b := in.Block(); strings.HasPrefix(b.Comment, "rangeindex") {
			usesAll = true
		}
	})
	c.check(usesAll, "combinedUUID ranges over all component uuids", comb.Pos(), "every variadic uuid is joined into the key", "combinedUUID does not iterate over its uuids")
}

// ---- M2 shared cache -------------------------------------------------------------------------------

func ruleM2(c *Ctx) {
	c.Rule("M2", "handles of one graph share cache state: the memoizer returned by storeMemoizer.Graph/NewGraph is loaded from, or stored into, state reachable from the store wrapper, so a write through one handle can invalidate what another handle cached", 2)
	gm, sm, _, _ := c.memoAnchors()
	if gm == nil {
		return
	}
	for _, name := range []string{"Graph", "NewGraph"} {
		fn := methodByName(c, sm, name)
		if fn == nil {
			c.undecided("(*storeMemoizer)."+name, token.NoPos, "method not found")
			continue
		}
		c.analysed(funcName(fn))
		key := funcName(fn) + " hands out a shared memoizer"
		shared, n := true, 0
		for _, r := range c.returnsOf(fn) {
			v := resultValues(r)[0]
			if isNilConst(v) {
				continue
			}
			if mi, ok := v.(*ssa.MakeInterface); ok {
				v = mi.X
			}
			n++
			t := c.term(v)
			fromRecv := strings.Contains(t, "param:"+fn.Params[0].Name()+".")
			stored := false
			if al, ok := v.(*ssa.Alloc); ok {
				for _, ref := range *al.Referrers() {
					switch x := ref.(type) {
					case *ssa.MapUpdate:
						if strings.Contains(c.term(x.Map), "param:"+fn.Params[0].Name()+".") {
							stored = true
						}
					case *ssa.MakeInterface:
						for _, r2 := range *x.Referrers() {
							if mu, ok := r2.(*ssa.MapUpdate); ok && strings.Contains(c.term(mu.Map), "param:"+fn.Params[0].Name()+".") {
								stored = true
							}
						}
					}
				}
			}
			if !fromRecv && !stored {
				shared = false
			}
		}
		if n == 0 {
			c.undecided(key, fn.Pos(), "no non-nil return found")
		} else if shared {
			c.ok(key, fn.Pos(), "the returned memoizer is kept in (or taken from) the wrapper's state")
		} else {
			c.bad(key, fn.Pos(), "%s builds a fresh graphMemoizer with its own caches on every call: a write through one handle cannot invalidate another handle's cache", funcName(fn))
		}
	}
}

// ---- M3 post-write invalidation ---------------------------------------------------------------------

// effStore is a store to a field of a method's receiver, made by the method itself (at = the store) or, on every path,
// by a same-package helper it calls on the same receiver (at = the call in the method).
type effStore struct {
	field *types.Var
	val   ssa.Value
	at    ssa.Instruction
}

func (c *Ctx) effectiveStores(fn *ssa.Function, depth int) []effStore {
	var out []effStore
	allInstrs(fn, func(in ssa.Instruction) {
		if st, ok := in.(*ssa.Store); ok {
			if fa, ok := st.Addr.(*ssa.FieldAddr); ok {
				out = append(out, effStore{fieldVar(fa.X.Type(), fa.Field), st.Val, in})
			}
			return
		}
		call, ok := in.(*ssa.Call)
		if !ok || depth >= 3 {
			return
		}
		callee := helperCallee(fn, &call.Call)
		if callee == nil || callee.Signature.Recv() == nil || len(fn.Params) == 0 || len(call.Call.Args) == 0 || c.term(call.Call.Args[0]) != c.term(fn.Params[0]) {
			return
		}
		cfi := c.fi(callee)
		for _, e := range c.effectiveStores(callee, depth+1) {
			// only what the helper does on every path through it
			if len(callee.Blocks) > 0 && cfi.postDominates(e.at.Block(), callee.Blocks[0]) {
				// the stored value must come from the helper's receiver chain too
				if fa, ok := storeAddrField(e.at); !ok || c.term(fa.X) == c.term(callee.Params[0]) {
					out = append(out, effStore{e.field, e.val, in})
				}
			}
		}
	})
	return out
}

func storeAddrField(in ssa.Instruction) (*ssa.FieldAddr, bool) {
	st, ok := in.(*ssa.Store)
	if !ok {
		return nil, false
	}
	fa, ok := st.Addr.(*ssa.FieldAddr)
	return fa, ok
}

func ruleM3(c *Ctx) {
	c.Rule("M3", "a write invalidates the cache after it has happened: in graphMemoizer.AddTriples/RemoveTriples every cache map is reset on every path after the forwarded write returns (a reset only before the write lets a concurrent lookup re-cache the old state)", 2)
	gm, _, cacheFields, inner := c.memoAnchors()
	if gm == nil {
		return
	}
	for _, name := range []string{"AddTriples", "RemoveTriples"} {
		fn := methodByName(c, gm, name)
		if fn == nil {
			c.undecided("(*graphMemoizer)."+name, token.NoPos, "method not found")
			continue
		}
		c.analysed(funcName(fn))
		fi := c.fi(fn)
		var write ssa.Instruction
		allInstrs(fn, func(in ssa.Instruction) {
			if call, ok := in.(*ssa.Call); ok && call.Call.IsInvoke() && call.Call.Method.Name() == name {
				if fa := fieldOfLoad(call.Call.Value); fa == inner {
					write = in
				}
			}
		})
		key := funcName(fn) + " resets caches after the write"
		if write == nil {
			c.bad(key, fn.Pos(), "%s does not forward to the wrapped graph's %s", funcName(fn), name)
			continue
		}
		resetAfter := map[*types.Var]bool{}
		resetBefore := map[*types.Var]bool{}
		for _, e := range c.effectiveStores(fn, 0) {
			f, in := e.field, e.at
			if !cacheFields[f] {
				continue
			}
			if _, isMake := e.val.(*ssa.MakeMap); !isMake {
				continue
			}
			if fi.instrPostDominates(in, write) {
				resetAfter[f] = true
			} else if fi.instrDominates(in, write) {
				resetBefore[f] = true
			}
		}
		var missing []string
		for f := range cacheFields {
			if !resetAfter[f] {
				missing = append(missing, f.Name())
			}
		}
		sort.Strings(missing)
		if len(missing) == 0 {
			c.ok(key, write.Pos(), "all %d caches are reset on every path after the forwarded write", len(cacheFields))
		} else {
			c.bad(key, write.Pos(), "caches %v are not reset after the forwarded %s returns (reset before the write only: %d): a lookup running between the reset and the write caches the pre-write answer and keeps serving it", missing, name, len(resetBefore))
		}
	}
}

// ---- M4 store on success, M5 key shape ------------------------------------------------------------------

func ruleM4M5(c *Ctx) {
	gm, _, cacheFields, inner := c.memoAnchors()
	if gm == nil {
		return
	}
	comb := c.mustFunc("storage/memoization", "combinedUUID")
	if comb == nil {
		return
	}
	opNames := map[string]string{}
	for _, fn := range c.methodsOf(gm) {
		var keyCall *ssa.Call
		for _, k := range callsTo(fn, comb) {
			keyCall = k
		}
		if keyCall == nil {
			continue
		}
		c.analysed(funcName(fn))
		fi := c.fi(fn)
		// forwarded call (possibly inside the goroutine closure)
		var fwd *ssa.Call
		var fwdFn *ssa.Function
		withClosures(fn, func(f *ssa.Function) {
			allInstrs(f, func(in ssa.Instruction) {
				if call, ok := in.(*ssa.Call); ok && call.Call.IsInvoke() && isNamed(call.Call.Value.Type(), modPath+"/storage", "Graph") {
					fwd, fwdFn = call, f
				}
			})
		})
		// ---- M5
		c.Rule("M5", "cache keys identify the question: the operation name in each key is the method's own name and the wrapped method it forwards to, names are pairwise distinct, the key includes the full UUID of every node/predicate/object/triple parameter and the caller's options, and a method serves from the same cache map and key it stores into", 12)
		key5 := funcName(fn) + " cache key"
		var p5 []string
		op := ""
		if k, ok := keyCall.Call.Args[0].(*ssa.Const); ok && k.Value != nil {
			op = constant.StringVal(k.Value)
		}
		if op != fn.Name() {
			p5 = append(p5, fmt.Sprintf("operation name %q differs from the method name %s", op, fn.Name()))
		}
		if prev, dup := opNames[op]; dup {
			p5 = append(p5, fmt.Sprintf("operation name %q is also used by %s: the two methods share cache entries", op, prev))
		}
		opNames[op] = fn.Name()
		if fwd == nil {
			p5 = append(p5, "no forwarded call to the wrapped graph")
		} else if fwd.Call.Method.Name() != fn.Name() {
			p5 = append(p5, fmt.Sprintf("forwards to %s instead of %s", fwd.Call.Method.Name(), fn.Name()))
		}
		// components
		have := map[string]bool{}
		if sl, ok := keyCall.Call.Args[2].(*ssa.Slice); ok {
			if al, ok := sl.X.(*ssa.Alloc); ok {
				for _, ref := range *al.Referrers() {
					ia, ok := ref.(*ssa.IndexAddr)
					if !ok {
						continue
					}
					for _, r2 := range *ia.Referrers() {
						if st, ok := r2.(*ssa.Store); ok {
							if call, ok := st.Val.(*ssa.Call); ok && call.Call.StaticCallee() != nil && len(call.Call.Args) == 1 {
								for pi, p := range fn.Params {
									if pi > 0 && isValueOfParam(call.Call.Args[0], p) {
										have[p.Name()] = call.Call.StaticCallee().Name() == "UUID"
									}
								}
							}
						}
					}
				}
			}
		}
		for i, p := range fn.Params {
			if i == 0 || componentKind(p.Type()) == "" {
				continue
			}
			full, ok := have[p.Name()]
			if !ok {
				p5 = append(p5, fmt.Sprintf("parameter %s is not part of the key: lookups for different %s share an entry", p.Name(), p.Name()))
			} else if !full {
				p5 = append(p5, fmt.Sprintf("parameter %s enters the key by a partial identity", p.Name()))
			}
		}
		if lop := paramOfNamed(fn, modPath+"/storage", "LookupOptions"); lop != nil && !isValueOfParam(keyCall.Call.Args[1], lop) {
			p5 = append(p5, "the key is built from options other than the caller's")
		}
		// same map and key for load and store
		var loads, stores []*types.Var
		sameKey := true
		// directly, or in a same-package accessor / immediately invoked closure the key is handed to
		walkHelpers(fn, 2, func(_ *ssa.Function, in ssa.Instruction, _ ssa.Instruction) {
			switch x := in.(type) {
			case *ssa.Lookup:
				if f := fieldOfLoad(x.X); f != nil && cacheFields[f] {
					loads = append(loads, f)
					if resolveParam(x.Index) != ssa.Value(keyCall) {
						sameKey = false
					}
				}
			case *ssa.MapUpdate:
				if f := fieldOfLoad(x.Map); f != nil && cacheFields[f] {
					stores = append(stores, f)
					if resolveParam(x.Key) != ssa.Value(keyCall) {
						sameKey = false
					}
				}
			}
		})
		if len(loads) != 1 || len(stores) != 1 || loads[0] != stores[0] {
			p5 = append(p5, fmt.Sprintf("serves from %v but stores into %v", varNames(loads), varNames(stores)))
		}
		if !sameKey {
			p5 = append(p5, "cache read or write uses a key other than combinedUUID's result")
		}
		// forwarded call gets the caller's arguments
		if fwd != nil {
			for i, p := range fn.Params {
				if i == 0 {
					continue
				}
				if _, isChan := p.Type().Underlying().(*types.Chan); isChan {
					continue
				}
				found := false
				for _, a := range fwd.Call.Args {
					if c.derivedFromParam(a, p, 0) || isValueOfParam(a, p) {
						found = true
					}
				}
				if !found {
					p5 = append(p5, fmt.Sprintf("the forwarded call does not receive parameter %s", p.Name()))
				}
			}
		}
		if len(p5) > 0 {
			c.bad(key5, fn.Pos(), "%s", strings.Join(p5, "; "))
		} else {
			c.ok(key5, fn.Pos(), "op %q = method = forwarded method; key covers options and the full UUID of %d component parameter(s); served from and stored into %s under that key", op, len(have), loads[0].Name())
		}
		// ---- M4
		c.Rule("M4", "only complete, successful answers are cached: every store into a cache map is dominated by the err == nil edge of the forwarded call's error, and (for streamed lookups) by the join of the goroutine running it", 12)
		key4 := funcName(fn) + " caches on success only"
		var p4 []string
		nst := 0
		walkHelpers(fn, 2, func(inFn *ssa.Function, in ssa.Instruction, top ssa.Instruction) {
			mu, ok := in.(*ssa.MapUpdate)
			if !ok {
				return
			}
			if f := fieldOfLoad(mu.Map); f == nil || !cacheFields[f] {
				return
			}
			nst++
			guarded := false
			facts := fi.factsAt(top.Block())
			if inFn != fn {
				facts = append(append([]Fact{}, facts...), c.fi(inFn).factsAt(mu.Block())...)
			}
			in = top // dominance below is judged in the method itself
			for _, ft := range facts {
				bo, ok := ft.Cond.(*ssa.BinOp)
				if !ok || !isNilConst(bo.Y) {
					continue
				}
				errIsNil := (bo.Op == token.EQL) == ft.Truth
				if !errIsNil {
					continue
				}
				if c.isForwardedError(bo.X, fn, fwd, fwdFn) {
					guarded = true
				}
			}
			if !guarded {
				p4 = append(p4, fmt.Sprintf("the cache store at %s is not dominated by `err == nil` for the forwarded call's error: a failed or partial read is cached and served as the complete answer", c.pos(in.Pos())))
			}
			// streamed lookups: Wait() precedes the store
			if fwdFn != nil && fwdFn != fn {
				joined := false
				allInstrs(fn, func(i2 ssa.Instruction) {
					if call, ok := i2.(*ssa.Call); ok && isCallTo(&call.Call, "sync", "Wait") && fi.instrDominates(i2, in) {
						joined = true
					}
				})
				if !joined {
					p4 = append(p4, fmt.Sprintf("the cache store at %s is not preceded by the join of the forwarding goroutine: err may still be unset", c.pos(in.Pos())))
				}
			}
		})
		if nst == 0 {
			c.undecided(key4, fn.Pos(), "no cache store found")
		} else if len(p4) > 0 {
			c.bad(key4, fn.Pos(), "%s", strings.Join(uniq(p4), "; "))
		} else {
			c.ok(key4, fn.Pos(), "%d cache store(s), each under err == nil of the forwarded call", nst)
		}
	}
	_ = inner
}

func varNames(vs []*types.Var) []string {
	var out []string
	for _, v := range vs {
		out = append(out, v.Name())
	}
	return out
}

// isForwardedError: v is the error produced by the forwarded call fwd (directly, or through the captured variable the goroutine assigns).
func (c *Ctx) isForwardedError(v ssa.Value, fn *ssa.Function, fwd *ssa.Call, fwdFn *ssa.Function) bool {
	if fwd == nil {
		return false
	}
	// direct: Extract of the call, or the call itself
	if ex, ok := v.(*ssa.Extract); ok && ex.Tuple == ssa.Value(fwd) {
		return true
	}
	if v == ssa.Value(fwd) {
		return true
	}
	// through a cell: v = *cell, and the closure stores the call result into the same cell
	u, ok := v.(*ssa.UnOp)
	if !ok || u.Op != token.MUL {
		return false
	}
	cell, ok := u.X.(*ssa.Alloc)
	if !ok {
		return false
	}
	if fwdFn == nil || fwdFn == fn {
		return false
	}
	// which free variable of the closure is bound to the cell
	var res bool
	allInstrs(fn, func(in ssa.Instruction) {
		mc, ok := in.(*ssa.MakeClosure)
		if !ok || mc.Fn != fwdFn {
			return
		}
		for i, b := range mc.Bindings {
			if b != ssa.Value(cell) {
				continue
			}
			fv := fwdFn.FreeVars[i]
			allInstrs(fwdFn, func(i2 ssa.Instruction) {
				if st, ok := i2.(*ssa.Store); ok && st.Addr == ssa.Value(fv) {
					if st.Val == ssa.Value(fwd) {
						res = true
					}
					if ex, ok := st.Val.(*ssa.Extract); ok && ex.Tuple == ssa.Value(fwd) {
						res = true
					}
				}
			})
		}
	})
	return res
}
