package main

import (
	"fmt"
	"go/token"
	"go/types"
	"sort"
	"strings"

	"golang.org/x/tools/go/ssa"
)

// ---- anchors shared by the store rules -------------------------------------

type storeAnchors struct {
	graphIface, storeIface *types.Interface
	graphImpls, storeImpls []*types.Named
	lookupOptions          *types.Named
}

func (c *Ctx) storeAnchors() *storeAnchors {
	g := c.mustNamed("storage", "Graph")
	s := c.mustNamed("storage", "Store")
	lo := c.mustNamed("storage", "LookupOptions")
	if g == nil || s == nil || lo == nil {
		return nil
	}
	gi, ok1 := g.Underlying().(*types.Interface)
	si, ok2 := s.Underlying().(*types.Interface)
	if !ok1 || !ok2 {
		c.undecided("anchor storage.Graph/Store", token.NoPos, "storage.Graph or storage.Store is no longer an interface")
		return nil
	}
	a := &storeAnchors{graphIface: gi, storeIface: si, lookupOptions: lo}
	a.graphImpls = c.implementers(gi)
	a.storeImpls = c.implementers(si)
	return a
}

// mapFields lists the struct fields of n that are maps.
func mapFields(n *types.Named) []*types.Var {
	st, ok := n.Underlying().(*types.Struct)
	if !ok {
		return nil
	}
	var out []*types.Var
	for i := 0; i < st.NumFields(); i++ {
		if _, ok := st.Field(i).Type().Underlying().(*types.Map); ok {
			out = append(out, st.Field(i))
		}
	}
	return out
}

// lockField returns the sync.Mutex / sync.RWMutex field of n, if it has exactly one.
func lockField(n *types.Named) *types.Var {
	st, ok := n.Underlying().(*types.Struct)
	if !ok {
		return nil
	}
	var out *types.Var
	for i := 0; i < st.NumFields(); i++ {
		t := st.Field(i).Type()
		if isNamed(t, "sync", "RWMutex") || isNamed(t, "sync", "Mutex") {
			if out != nil {
				return nil
			}
			out = st.Field(i)
		}
	}
	return out
}

func chanParam(fn *ssa.Function) *ssa.Parameter {
	for _, p := range fn.Params {
		if ch, ok := p.Type().Underlying().(*types.Chan); ok && ch.Dir() == types.SendOnly {
			return p
		}
	}
	return nil
}

func paramOfNamed(fn *ssa.Function, pkgpath, name string) *ssa.Parameter {
	for i, p := range fn.Params {
		if i == 0 && fn.Signature.Recv() != nil {
			continue
		}
		if isNamed(p.Type(), pkgpath, name) {
			return p
		}
	}
	return nil
}

// isValueOfParam: v is the parameter itself or a load of the cell the parameter was spilled to (captured by a closure).
func isValueOfParam(v ssa.Value, p *ssa.Parameter) bool {
	switch x := v.(type) {
	case *ssa.Parameter:
		return x == p
	case *ssa.UnOp:
		if x.Op == token.MUL {
			if a, ok := x.X.(*ssa.Alloc); ok {
				if sv := singleStore(a); sv != nil {
					return isValueOfParam(sv, p)
				}
			}
		}
	case *ssa.ChangeType:
		return isValueOfParam(x.X, p)
	case *ssa.Phi:
		for _, e := range x.Edges {
			if !isValueOfParam(e, p) {
				return false
			}
		}
		return len(x.Edges) > 0
	}
	return false
}

// ---- S5 close-once --------------------------------------------------------

type closeState struct {
	closes, deferred uint8
	isNil            bool
}

func ruleS5(c *Ctx) {
	c.Rule("S5", "every Store/Graph method taking a result channel closes it exactly once on every return path (a nil channel is refused before any close); handing the channel to the wrapped driver's same-interface method transfers the single close", 20)
	a := c.storeAnchors()
	if a == nil {
		return
	}
	impls := append(append([]*types.Named{}, a.graphImpls...), a.storeImpls...)
	for _, n := range impls {
		for _, fn := range c.methodsOf(n) {
			ch := chanParam(fn)
			if ch == nil {
				continue
			}
			c.checkCloseOnce(fn, ch, a)
		}
	}
}

func (c *Ctx) checkCloseOnce(fn *ssa.Function, ch *ssa.Parameter, a *storeAnchors) {
	c.analysed(funcName(fn))
	badFacts, undec, nrets, npaths := c.closeAnalysis(fn, ch, a, 0)
	key := funcName(fn) + " close(" + ch.Name() + ")"
	switch {
	case nrets == 0:
		c.undecided(key, fn.Pos(), "no reachable return")
	case len(badFacts) > 0:
		c.bad(key, fn.Pos(), "%s", strings.Join(uniq(badFacts), "; "))
	case undec != "":
		c.undecided(key, fn.Pos(), "%s", undec)
	default:
		c.ok(key, fn.Pos(), "%d returns, %d (return,state) pairs: exactly one close (direct, deferred, transferred to the wrapped driver or to a helper that closes exactly once) on each; nil-channel paths close nothing", nrets, npaths)
	}
}

// closeAnalysis counts, on every path to every return of fn, the closes of channel parameter ch: close(ch), a deferred
// close, handing ch to a storage interface method, or handing it to a same-package helper that itself closes its
// parameter exactly once on every path (analysed recursively).
func (c *Ctx) closeAnalysis(fn *ssa.Function, ch *ssa.Parameter, a *storeAnchors, depth int) (badFacts []string, undec string, nrets, npaths int) {
	isTransfer := func(cc *ssa.CallCommon) bool {
		// passing the channel to a method of storage.Graph / storage.Store (interface call or concrete implementer)
		passes := false
		for _, arg := range cc.Args {
			if isValueOfParam(arg, ch) {
				passes = true
			}
		}
		if !passes {
			return false
		}
		if cc.IsInvoke() {
			return isNamed(cc.Value.Type(), modPath+"/storage", "Graph") || isNamed(cc.Value.Type(), modPath+"/storage", "Store")
		}
		if f := cc.StaticCallee(); f != nil && f.Signature.Recv() != nil {
			rn := namedOf(f.Signature.Recv().Type())
			for _, n := range append(append([]*types.Named{}, a.graphImpls...), a.storeImpls...) {
				if rn == n {
					return true
				}
			}
		}
		if callee := helperCallee(fn, cc); callee != nil && depth < 3 {
			for i, arg := range cc.Args {
				if isValueOfParam(arg, ch) && i < len(callee.Params) {
					bf, ud, nr, _ := c.closeAnalysis(callee, callee.Params[i], a, depth+1)
					if len(bf) == 0 && ud == "" && nr > 0 {
						return true
					}
					undec = "the channel is passed to " + calleeName(cc) + ", which does not close it exactly once on every path"
					return false
				}
			}
		}
		undec = "the channel is passed to " + calleeName(cc) + ", which is neither a storage interface method nor close"
		return false
	}
	bump := func(x uint8) uint8 {
		if x < 3 {
			return x + 1
		}
		return x
	}
	transfer := func(s closeState, in ssa.Instruction) closeState {
		switch x := in.(type) {
		case *ssa.Call:
			if isBuiltinCall(&x.Call, "close") && isValueOfParam(x.Call.Args[0], ch) {
				s.closes = bump(s.closes)
			} else if isTransfer(&x.Call) {
				s.closes = bump(s.closes)
			}
		case *ssa.Defer:
			if isBuiltinCall(&x.Call, "close") && isValueOfParam(x.Call.Args[0], ch) {
				s.deferred = bump(s.deferred)
			} else if isTransfer(&x.Call) {
				s.deferred = bump(s.deferred)
			} else if mc, ok := x.Call.Value.(*ssa.MakeClosure); ok {
				for _, b := range mc.Bindings {
					if al, ok := b.(*ssa.Alloc); ok {
						if sv := singleStore(al); sv != nil && isValueOfParam(sv, ch) {
							undec = "a deferred closure captures the channel; closes inside it are not modelled"
						}
					}
				}
			}
		case *ssa.Go:
			for _, arg := range x.Call.Args {
				if isValueOfParam(arg, ch) {
					undec = "the channel is handed to a goroutine"
				}
			}
			if mc, ok := x.Call.Value.(*ssa.MakeClosure); ok {
				for _, b := range mc.Bindings {
					if al, ok := b.(*ssa.Alloc); ok {
						if sv := singleStore(al); sv != nil && isValueOfParam(sv, ch) {
							// a goroutine that only sends is fine; one that closes is not modelled
							withClosures(mc.Fn.(*ssa.Function), func(f *ssa.Function) {
								allInstrs(f, func(i ssa.Instruction) {
									if cc := callCommon(i); cc != nil && isBuiltinCall(cc, "close") {
										undec = "a goroutine closure captures the channel and calls close"
									}
								})
							})
						}
					}
				}
			}
		case *ssa.RunDefers:
			s.closes += s.deferred
			if s.closes > 3 {
				s.closes = 3
			}
			s.deferred = 0
		}
		return s
	}
	edge := func(s closeState, b *ssa.BasicBlock, si int) (closeState, bool) {
		iff, ok := b.Instrs[len(b.Instrs)-1].(*ssa.If)
		if !ok {
			return s, true
		}
		if bo, ok := iff.Cond.(*ssa.BinOp); ok && (bo.Op == token.EQL || bo.Op == token.NEQ) {
			var other ssa.Value
			if isValueOfParam(bo.X, ch) {
				other = bo.Y
			} else if isValueOfParam(bo.Y, ch) {
				other = bo.X
			}
			if other != nil && isNilConst(other) {
				nilOnTrue := bo.Op == token.EQL
				if (si == 0) == nilOnTrue {
					s.isNil = true
				} else {
					s.isNil = false
				}
			}
		}
		return s, true
	}
	atRet, _ := flow(c, fn, closeState{}, transfer, edge)
	rets := c.returnsOf(fn)
	nrets = len(rets)
	for _, r := range rets {
		for s := range atRet[r] {
			npaths++
			switch {
			case s.isNil && s.closes == 0:
			case s.isNil:
				badFacts = append(badFacts, fmt.Sprintf("return at %s closes a channel known to be nil", c.pos(r.Pos())))
			case s.closes == 0:
				badFacts = append(badFacts, fmt.Sprintf("return at %s is reached with 0 closes of %s", c.pos(r.Pos()), ch.Name()))
			case s.closes >= 2:
				badFacts = append(badFacts, fmt.Sprintf("return at %s is reached with %d closes of %s", c.pos(r.Pos()), s.closes, ch.Name()))
			}
		}
	}
	sort.Strings(badFacts)
	return
}

func uniq(xs []string) []string {
	var out []string
	seen := map[string]bool{}
	for _, x := range xs {
		if !seen[x] {
			seen[x] = true
			out = append(out, x)
		}
	}
	return out
}

// ---- S2 guarded namespace ---------------------------------------------------

// commaOkLookup describes `_, ok := m[k]` on a receiver map field.
func commaOkOn(v ssa.Value) (*ssa.Lookup, bool) {
	ex, ok := v.(*ssa.Extract)
	if !ok || ex.Index != 1 {
		return nil, false
	}
	lk, ok := ex.Tuple.(*ssa.Lookup)
	if !ok || !lk.CommaOk {
		return nil, false
	}
	return lk, true
}

func ruleS2(c *Ctx) {
	c.Rule("S2", "create/get/drop of a graph name test presence first: NewGraph stores only on the absent edge and fails on the present edge; DeleteGraph deletes only on the present edge and fails otherwise; Graph returns the stored value only on the present edge and fails otherwise", 3)
	a := c.storeAnchors()
	if a == nil {
		return
	}
	owners := 0
	for _, n := range a.storeImpls {
		mf := mapFields(n)
		if len(mf) == 0 {
			continue
		}
		owners++
		for _, f := range mf {
			for _, m := range []string{"NewGraph", "DeleteGraph", "Graph"} {
				fn := c.lookupFunc(strings.TrimPrefix(strings.TrimPrefix(n.Obj().Pkg().Path(), modPath), "/"), n.Obj().Name()+"."+m)
				if fn == nil {
					c.undecided(n.Obj().Name()+"."+m, token.NoPos, "method not found")
					continue
				}
				c.checkNamespace(fn, f, m)
			}
		}
	}
	if owners == 0 {
		c.undecided("store map owner", token.NoPos, "no storage.Store implementer owns a map field")
	}
}

func (c *Ctx) fieldLoadOf(v ssa.Value, f *types.Var) bool {
	u, ok := v.(*ssa.UnOp)
	if !ok || u.Op != token.MUL {
		return false
	}
	fa, ok := u.X.(*ssa.FieldAddr)
	if !ok {
		return false
	}
	return fieldVar(fa.X.Type(), fa.Field) == f
}

func (c *Ctx) checkNamespace(fn *ssa.Function, f *types.Var, kind string) {
	c.analysed(funcName(fn))
	fi := c.fi(fn)
	key := funcName(fn) + " on " + f.Name()
	idParam := (*ssa.Parameter)(nil)
	for i, p := range fn.Params {
		if i > 0 && types.Identical(p.Type(), types.Typ[types.String]) {
			idParam = p
		}
	}
	if idParam == nil {
		c.undecided(key, fn.Pos(), "no string id parameter")
		return
	}
	var effects []ssa.Instruction
	allInstrs(fn, func(in ssa.Instruction) {
		switch x := in.(type) {
		case *ssa.MapUpdate:
			if c.fieldLoadOf(x.Map, f) {
				effects = append(effects, in)
			}
		case *ssa.Call:
			if isBuiltinCall(&x.Call, "delete") && c.fieldLoadOf(x.Call.Args[0], f) {
				effects = append(effects, in)
			}
		case *ssa.Store:
			if fa, ok := x.Addr.(*ssa.FieldAddr); ok && fieldVar(fa.X.Type(), fa.Field) == f {
				effects = append(effects, in)
			}
		}
	})
	// presence facts at a block: +1 present, -1 absent, 0 unknown
	presence := func(b *ssa.BasicBlock) int {
		for _, ft := range fi.factsAt(b) {
			if lk, ok := commaOkOn(ft.Cond); ok && c.fieldLoadOf(lk.X, f) && isValueOfParam(lk.Index, idParam) {
				if ft.Truth {
					return 1
				}
				return -1
			}
		}
		return 0
	}
	var problems []string
	wantEffect := map[string]string{"NewGraph": "MapUpdate", "DeleteGraph": "delete", "Graph": ""}[kind]
	found := false
	for _, e := range effects {
		p := presence(e.Block())
		switch x := e.(type) {
		case *ssa.MapUpdate:
			if kind != "NewGraph" {
				problems = append(problems, fmt.Sprintf("%s stores into the namespace map at %s", kind, c.pos(e.Pos())))
			} else {
				found = true
				if p != -1 {
					problems = append(problems, fmt.Sprintf("the store at %s is not dominated by the absent edge of a comma-ok lookup of the same name", c.pos(e.Pos())))
				}
				if !isValueOfParam(x.Key, idParam) {
					problems = append(problems, "the store uses a key other than the id parameter")
				}
			}
		case *ssa.Call:
			if kind != "DeleteGraph" {
				problems = append(problems, fmt.Sprintf("%s deletes from the namespace map at %s", kind, c.pos(e.Pos())))
			} else {
				found = true
				if p != 1 {
					problems = append(problems, fmt.Sprintf("the delete at %s is not dominated by the present edge of a comma-ok lookup of the same name", c.pos(e.Pos())))
				}
				if !isValueOfParam(x.Call.Args[1], idParam) {
					problems = append(problems, "the delete uses a key other than the id parameter")
				}
			}
		case *ssa.Store:
			problems = append(problems, fmt.Sprintf("%s replaces the whole namespace map at %s", kind, c.pos(e.Pos())))
		}
	}
	if wantEffect != "" && !found {
		problems = append(problems, "no "+wantEffect+" on the namespace map")
	}
	nret := 0
	for _, r := range c.returnsOf(fn) {
		nret++
		res := resultValues(r)
		errv := res[len(res)-1]
		p := presence(r.Block())
		success := isNilConst(errv)
		switch kind {
		case "NewGraph":
			if success && p != -1 {
				problems = append(problems, fmt.Sprintf("success return at %s is not on the absent edge", c.pos(r.Pos())))
			}
			if success {
				dom := false
				for _, e := range effects {
					if _, ok := e.(*ssa.MapUpdate); ok && fi.instrDominates(e, r) {
						dom = true
					}
				}
				if !dom {
					problems = append(problems, fmt.Sprintf("success return at %s is not preceded by the store on every path", c.pos(r.Pos())))
				}
			}
			if !success && p == -1 {
				// error after a successful absence test is allowed only before the store
				for _, e := range effects {
					if fi.instrDominates(e, r) {
						problems = append(problems, fmt.Sprintf("error return at %s after the name was stored", c.pos(r.Pos())))
					}
				}
			}
		case "DeleteGraph":
			if success && p != 1 {
				problems = append(problems, fmt.Sprintf("success return at %s is not on the present edge", c.pos(r.Pos())))
			}
			if success {
				dom := false
				for _, e := range effects {
					if fi.instrDominates(e, r) {
						dom = true
					}
				}
				if !dom {
					problems = append(problems, fmt.Sprintf("success return at %s is not preceded by the delete on every path", c.pos(r.Pos())))
				}
			}
		case "Graph":
			if success {
				if p != 1 {
					problems = append(problems, fmt.Sprintf("success return at %s is not on the present edge", c.pos(r.Pos())))
				}
				// the value returned is the looked-up one
				v := res[0]
				okv := false
				if ex, ok := v.(*ssa.Extract); ok && ex.Index == 0 {
					if lk, ok := ex.Tuple.(*ssa.Lookup); ok && c.fieldLoadOf(lk.X, f) && isValueOfParam(lk.Index, idParam) {
						okv = true
					}
				}
				if lk, ok := v.(*ssa.Lookup); ok && c.fieldLoadOf(lk.X, f) && isValueOfParam(lk.Index, idParam) {
					okv = true
				}
				if !okv {
					problems = append(problems, fmt.Sprintf("success return at %s does not return the value stored under the id", c.pos(r.Pos())))
				}
			}
		}
	}
	if len(problems) > 0 {
		c.bad(key, fn.Pos(), "%s", strings.Join(uniq(problems), "; "))
	} else {
		c.ok(key, fn.Pos(), "%d returns and %d map effects examined: effect and success only on the required edge of the comma-ok test of the id; failure otherwise", nret, len(effects))
	}
}

// ---- S3 lockset, S4 re-entrancy, S7 batch atomicity -----------------------------

const (
	lkNone = 0
	lkR    = 1
	lkW    = 2
)

type lockState struct{ mode uint8 }

// lockOp classifies a call as an operation on the receiver's lock field: +W, +R, -W, -R.
func lockOp(cc *ssa.CallCommon, lock *types.Var) string {
	f := cc.StaticCallee()
	if f == nil || f.Signature.Recv() == nil || len(cc.Args) == 0 {
		return ""
	}
	if !isNamed(f.Signature.Recv().Type(), "sync", "RWMutex") && !isNamed(f.Signature.Recv().Type(), "sync", "Mutex") {
		return ""
	}
	fa, ok := cc.Args[0].(*ssa.FieldAddr)
	if !ok || fieldVar(fa.X.Type(), fa.Field) != lock {
		return ""
	}
	return f.Name()
}

type guardedAccess struct {
	instr ssa.Instruction
	field *types.Var
	write bool
	what  string
}

// guardedAccesses finds reads and writes of the guarded fields reached through value recv in fn.
func guardedAccesses(fn *ssa.Function, guarded map[*types.Var]bool) []guardedAccess {
	var out []guardedAccess
	var chaseMap func(v ssa.Value, f *types.Var, depth int)
	chaseMap = func(v ssa.Value, f *types.Var, depth int) {
		if depth > 3 || v.Referrers() == nil {
			return
		}
		for _, r := range *v.Referrers() {
			switch x := r.(type) {
			case *ssa.MapUpdate:
				if x.Map == v {
					out = append(out, guardedAccess{x, f, true, "map store"})
				}
			case *ssa.Lookup:
				if x.X == v {
					out = append(out, guardedAccess{x, f, false, "map lookup"})
					if _, ok := x.Type().Underlying().(*types.Map); ok {
						chaseMap(x, f, depth+1)
					}
					if tup, ok := x.Type().(*types.Tuple); ok && tup.Len() == 2 {
						if _, ok := tup.At(0).Type().Underlying().(*types.Map); ok {
							for _, rr := range *x.Referrers() {
								if ex, ok := rr.(*ssa.Extract); ok && ex.Index == 0 {
									chaseMap(ex, f, depth+1)
								}
							}
						}
					}
				}
			case *ssa.Range:
				out = append(out, guardedAccess{x, f, false, "range"})
			case *ssa.Call:
				if isBuiltinCall(&x.Call, "delete") && x.Call.Args[0] == v {
					out = append(out, guardedAccess{x, f, true, "delete"})
				} else if isBuiltinCall(&x.Call, "len") {
					out = append(out, guardedAccess{x, f, false, "len"})
				} else if _, isB := x.Call.Value.(*ssa.Builtin); !isB {
					// the map (or one of its buckets) is handed to a callee that will read it: the lock must be held across the call
					for _, a := range x.Call.Args {
						if a == v {
							out = append(out, guardedAccess{x, f, false, "map passed to " + calleeName(&x.Call)})
						}
					}
				}
			case *ssa.IndexAddr:
				if x.X == v {
					out = append(out, guardedAccess{x, f, false, "index"})
					for _, rr := range *x.Referrers() {
						if st, ok := rr.(*ssa.Store); ok && st.Addr == x {
							out = append(out, guardedAccess{st, f, true, "element store"})
						}
					}
				}
			}
		}
	}
	allInstrs(fn, func(in ssa.Instruction) {
		fa, ok := in.(*ssa.FieldAddr)
		if !ok {
			return
		}
		f := fieldVar(fa.X.Type(), fa.Field)
		if f == nil || !guarded[f] {
			return
		}
		for _, r := range *fa.Referrers() {
			switch x := r.(type) {
			case *ssa.Store:
				if x.Addr == fa {
					out = append(out, guardedAccess{x, f, true, "field store"})
				}
			case *ssa.UnOp:
				if x.Op == token.MUL {
					out = append(out, guardedAccess{x, f, false, "field load"})
					chaseMap(x, f, 0)
				}
			}
		}
	})
	return out
}

// lockFlow runs the lock-state analysis of fn for the given lock field.
func (c *Ctx) lockFlow(fn *ssa.Function, lock *types.Var) func(ssa.Instruction) map[lockState]bool {
	return c.lockFlowFrom(fn, lock, lkNone)
}

// callSiteIndex: for every module function, the instructions that call it statically, and whether it is also used as
// a value (stored, passed, deferred through a variable), in which case its callers are not all known.
type callSiteIdx struct {
	sites   map[*ssa.Function][]ssa.Instruction
	escapes map[*ssa.Function]bool
}

func (c *Ctx) callSites() *callSiteIdx {
	if c.csIdx != nil {
		return c.csIdx
	}
	idx := &callSiteIdx{sites: map[*ssa.Function][]ssa.Instruction{}, escapes: map[*ssa.Function]bool{}}
	for _, fn := range c.srcFuncs() {
		allInstrs(fn, func(in ssa.Instruction) {
			cc := callCommon(in)
			var ops []*ssa.Value
			for _, op := range in.Operands(ops) {
				f, ok := (*op).(*ssa.Function)
				if !ok {
					continue
				}
				if cc != nil && !cc.IsInvoke() && op == &cc.Value {
					if _, isCall := in.(*ssa.Call); isCall {
						idx.sites[f] = append(idx.sites[f], in)
						continue
					}
				}
				idx.escapes[f] = true
			}
		})
	}
	c.csIdx = idx
	return idx
}

// entryLockMode: the weakest mode of the owner's lock that is certainly held whenever the unexported method fn of
// the owner starts running — the minimum, over all its call sites, of the mode the caller holds there (callers that
// are such helpers themselves are resolved recursively). Exported methods, methods used as values, methods that
// operate the lock themselves and methods called on another object start with nothing held.
func (c *Ctx) entryLockMode(fn *ssa.Function, o lockOwner, seen map[*ssa.Function]bool) uint8 {
	if fn == nil || seen[fn] || fn.Parent() != nil || token.IsExported(fn.Name()) || fn.Signature.Recv() == nil || namedOf(fn.Signature.Recv().Type()) != o.named {
		return lkNone
	}
	seen[fn] = true
	defer delete(seen, fn)
	idx := c.callSites()
	if idx.escapes[fn] || len(idx.sites[fn]) == 0 {
		return lkNone
	}
	ops := false
	allInstrs(fn, func(in ssa.Instruction) {
		if cc := callCommon(in); cc != nil && lockOp(cc, o.lock) != "" {
			ops = true
		}
	})
	if ops {
		return lkNone
	}
	mode := uint8(lkW)
	for _, site := range idx.sites[fn] {
		caller := site.Parent()
		cc := callCommon(site)
		// same object: the receiver argument is the caller's own receiver
		top := caller
		for top.Parent() != nil {
			top = top.Parent()
		}
		if len(cc.Args) == 0 || len(top.Params) == 0 || top.Signature.Recv() == nil || !strings.HasPrefix(c.term(cc.Args[0]), c.term(top.Params[0])) || c.term(cc.Args[0]) != c.term(top.Params[0]) {
			return lkNone
		}
		init := uint8(lkNone)
		if caller.Parent() == nil {
			init = c.entryLockMode(caller, o, seen)
		}
		at := c.lockFlowFrom(caller, o.lock, init)
		worst := uint8(lkW)
		states := at(site)
		if len(states) == 0 {
			continue // unreachable call
		}
		for st := range states {
			if st.mode < worst {
				worst = st.mode
			}
		}
		if worst < mode {
			mode = worst
		}
	}
	return mode
}

func (c *Ctx) lockFlowFrom(fn *ssa.Function, lock *types.Var, init uint8) func(ssa.Instruction) map[lockState]bool {
	transfer := func(s lockState, in ssa.Instruction) lockState {
		if call, ok := in.(*ssa.Call); ok {
			switch lockOp(&call.Call, lock) {
			case "Lock":
				s.mode = lkW
			case "RLock":
				s.mode = lkR
			case "Unlock", "RUnlock":
				s.mode = lkNone
			}
		}
		return s
	}
	_, at := flow(c, fn, lockState{mode: init}, transfer, nil)
	return at
}

func modeName(m uint8) string { return [...]string{"none", "R", "W"}[m] }

// isFreshReceiver: the struct whose field is accessed was allocated in this function (not yet published).
func isFreshBase(fa *ssa.FieldAddr) bool {
	_, ok := fa.X.(*ssa.Alloc)
	return ok
}

func accessBase(in ssa.Instruction) *ssa.FieldAddr {
	// walk back from an access instruction to the FieldAddr it is rooted in
	var v ssa.Value
	switch x := in.(type) {
	case *ssa.Store:
		v = x.Addr
	case *ssa.UnOp:
		v = x.X
	case *ssa.MapUpdate:
		v = x.Map
	case *ssa.Lookup:
		v = x.X
	case *ssa.Range:
		v = x.X
	case *ssa.Call:
		if len(x.Call.Args) > 0 {
			v = x.Call.Args[0]
		}
	case *ssa.IndexAddr:
		v = x.X
	}
	for i := 0; i < 8 && v != nil; i++ {
		switch y := v.(type) {
		case *ssa.FieldAddr:
			return y
		case *ssa.UnOp:
			v = y.X
		case *ssa.Lookup:
			v = y.X
		case *ssa.Extract:
			v = y.Tuple
		case *ssa.IndexAddr:
			v = y.X
		default:
			return nil
		}
	}
	return nil
}

type lockOwner struct {
	named   *types.Named
	lock    *types.Var
	guarded map[*types.Var]bool
	why     string
}

// lockOwners is the frozen guard table: which fields of which type are protected by its lock.
func (c *Ctx) lockOwners() []lockOwner {
	type spec struct {
		rel, typ string
		fields   []string
		why      string
	}
	specs := []spec{
		{"storage/memory", "memoryStore", []string{"graphs"}, "name->graph map shared by every goroutine using the store"},
		{"storage/memory", "memory", []string{"idx", "idxS", "idxP", "idxO", "idxSP", "idxPO", "idxSO"}, "the seven indexes of a graph"},
		{"storage/memoization", "graphMemoizer", []string{"memN", "memP", "memO", "memT", "memE"}, "the five caches of a memoized graph"},
		{"bql/table", "Table", []string{"Data", "mbs", "AvailableBindings"}, "rows and binding set, appended to from planner goroutines"},
	}
	var out []lockOwner
	for _, s := range specs {
		n := c.mustNamed(s.rel, s.typ)
		if n == nil {
			continue
		}
		lf := lockField(n)
		if lf == nil {
			c.undecided("lock of "+s.typ, n.Obj().Pos(), "type %s no longer has exactly one sync.Mutex/RWMutex field", s.typ)
			continue
		}
		o := lockOwner{named: n, lock: lf, guarded: map[*types.Var]bool{}, why: s.why}
		st := n.Underlying().(*types.Struct)
		for _, fname := range s.fields {
			found := false
			for i := 0; i < st.NumFields(); i++ {
				if fieldCanon(st.Field(i)) == fname {
					o.guarded[st.Field(i)] = true
					found = true
				}
			}
			if !found {
				c.undecided("guarded field "+s.typ+"."+fname, n.Obj().Pos(), "guard table names a field that does not exist any more")
			}
		}
		// any map/slice field not in the table is reported so that a new shared field cannot slip by silently
		for i := 0; i < st.NumFields(); i++ {
			f := st.Field(i)
			if o.guarded[f] || f == lf {
				continue
			}
			switch f.Type().Underlying().(type) {
			case *types.Map, *types.Slice:
				c.undecided("guard table "+s.typ+"."+f.Name(), f.Pos(), "field %s.%s is a map/slice but is not in the guard table of rule S3; add it with its lock or a reason", s.typ, f.Name())
			}
		}
		out = append(out, o)
	}
	return out
}

// tableConcurrentMethods: Table methods that are reachable from goroutine closures of the planner (frozen, confirmed by reading).
var tableSequentialOnly = map[string]string{
	"LeftOptionalJoin": "called from processClause on the statement goroutine after the fetch goroutines were joined",
	"joinWithRange":    "helper of LeftOptionalJoin",
	"String":           "debug rendering",
}

func ruleS3(c *Ctx) {
	c.Rule("S3", "every access to a guarded field (namespace map, the seven indexes, the memoizer caches, Table rows/bindings) happens with the owner's lock held in the right mode on every path: writes need the write lock, reads a read or write lock", 40)
	for _, o := range c.lockOwners() {
		tn := o.named.Obj().Name()
		for _, fn := range c.methodsOf(o.named) {
			withClosures(fn, func(f *ssa.Function) {
				accs := guardedAccesses(f, o.guarded)
				if len(accs) == 0 {
					return
				}
				c.analysed(funcName(f))
				entry := uint8(lkNone)
				if f == fn {
					entry = c.entryLockMode(fn, o, map[*ssa.Function]bool{})
				}
				at := c.lockFlowFrom(f, o.lock, entry)
				isUnsafe := strings.HasPrefix(fn.Name(), "unsafe")
				for _, a := range accs {
					if fa := accessBase(a.instr); fa != nil && isFreshBase(fa) {
						continue // construction before publication
					}
					key := fmt.Sprintf("%s %s of %s.%s", funcName(f), map[bool]string{true: "write", false: "read"}[a.write], tn, a.field.Name())
					if isUnsafe {
						c.trivial(key, a.instr.Pos(), "helper named unsafe*: obligation moves to its call sites (caller must hold W)")
						continue
					}
					if why, ok := tableSequentialOnly[fn.Name()]; ok && tn == "Table" {
						c.info(key, a.instr.Pos(), "not judged: %s", why)
						continue
					}
					states := at(a.instr)
					worst := uint8(lkW)
					for s := range states {
						if s.mode < worst {
							worst = s.mode
						}
					}
					if len(states) == 0 {
						continue // unreachable
					}
					need := uint8(lkR)
					if a.write {
						need = lkW
					}
					if f != fn {
						// inside a closure the lock state of the enclosing method is unknown: require the closure itself to lock
					}
					if worst >= need {
						c.ok(key, a.instr.Pos(), "%s under %s lock of %s on every path (%d path states)", a.what, modeName(worst), o.lock.Name(), len(states))
					} else {
						c.bad(key, a.instr.Pos(), "%s at %s can be reached holding only %q of lock %s; needs %q", a.what, c.pos(a.instr.Pos()), modeName(worst), o.lock.Name(), modeName(need))
					}
				}
				// call sites of unsafe* helpers need W
				allInstrs(f, func(in ssa.Instruction) {
					cc := callCommon(in)
					if cc == nil {
						return
					}
					callee := cc.StaticCallee()
					if callee == nil || callee.Signature.Recv() == nil || namedOf(callee.Signature.Recv().Type()) != o.named || !strings.HasPrefix(callee.Name(), "unsafe") {
						return
					}
					if isUnsafe {
						return
					}
					states := at(in)
					worst := uint8(lkW)
					for s := range states {
						if s.mode < worst {
							worst = s.mode
						}
					}
					key := fmt.Sprintf("%s calls %s", funcName(f), callee.Name())
					if len(states) > 0 && worst == lkW {
						c.ok(key, in.Pos(), "caller holds the write lock")
					} else if len(states) > 0 {
						c.bad(key, in.Pos(), "lock-free helper %s called holding only %q", callee.Name(), modeName(worst))
					}
				})
			})
		}
	}
}

// acquiresLock: fn (a method of owner) acquires the owner's lock, directly or through same-receiver calls.
func (c *Ctx) acquiresLock(fn *ssa.Function, o lockOwner, seen map[*ssa.Function]bool) bool {
	if fn == nil || seen[fn] || fn.Blocks == nil {
		return false
	}
	seen[fn] = true
	res := false
	allInstrs(fn, func(in ssa.Instruction) {
		cc := callCommon(in)
		if cc == nil {
			return
		}
		if op := lockOp(cc, o.lock); op == "Lock" || op == "RLock" {
			res = true
		}
		if callee := cc.StaticCallee(); callee != nil && callee.Signature.Recv() != nil && namedOf(callee.Signature.Recv().Type()) == o.named {
			if c.acquiresLock(callee, o, seen) {
				res = true
			}
		}
	})
	return res
}

func ruleS4(c *Ctx) {
	c.Rule("S4", "no method calls, while holding its receiver's lock, another method of the same receiver that acquires that lock again (sync.RWMutex is not re-entrant; a read re-entry deadlocks against a waiting writer)", 1)
	n := 0
	for _, o := range c.lockOwners() {
		for _, fn := range c.methodsOf(o.named) {
			var at func(ssa.Instruction) map[lockState]bool
			allInstrs(fn, func(in ssa.Instruction) {
				call, ok := in.(*ssa.Call)
				if !ok {
					return
				}
				callee := call.Call.StaticCallee()
				if callee == nil || callee.Signature.Recv() == nil || namedOf(callee.Signature.Recv().Type()) != o.named {
					return
				}
				// same receiver object?
				if len(call.Call.Args) == 0 || len(fn.Params) == 0 || !isValueOfParam(call.Call.Args[0], fn.Params[0]) {
					return
				}
				if at == nil {
					at = c.lockFlow(fn, o.lock)
				}
				held := false
				for s := range at(in) {
					if s.mode != lkNone {
						held = true
					}
				}
				n++
				key := fmt.Sprintf("%s calls %s", funcName(fn), callee.Name())
				if !held {
					c.trivial(key, in.Pos(), "receiver lock not held at the call")
					return
				}
				if c.acquiresLock(callee, o, map[*ssa.Function]bool{}) {
					if why, ok := tableSequentialOnly[fn.Name()]; ok && o.named.Obj().Name() == "Table" {
						c.info(key, in.Pos(), "nested acquisition not judged: %s", why)
						return
					}
					c.bad(key, in.Pos(), "%s holds %s and calls %s, which acquires %s again", funcName(fn), o.lock.Name(), callee.Name(), o.lock.Name())
				} else {
					c.ok(key, in.Pos(), "callee never acquires %s", o.lock.Name())
				}
			})
		}
	}
	if n == 0 {
		c.trivial("same-receiver calls", token.NoPos, "no method of a lock-owning type calls another method of its receiver")
	}
}

func inLoop(fi *fnInfo, b *ssa.BasicBlock) bool {
	// b is on a cycle iff b is reachable from one of its successors
	seen := map[int]bool{}
	var stack []int
	stack = append(stack, fi.succs[b.Index]...)
	for len(stack) > 0 {
		x := stack[len(stack)-1]
		stack = stack[:len(stack)-1]
		if x == b.Index {
			return true
		}
		if x >= fi.n || seen[x] {
			continue
		}
		seen[x] = true
		stack = append(stack, fi.succs[x]...)
	}
	return false
}

func ruleS7(c *Ctx) {
	c.Rule("S7", "one AddTriples call of an index-owning graph is a single critical section: the write lock is taken once before the batch loop and no lock operation lies on a cycle, so no lookup can observe half a batch", 1)
	a := c.storeAnchors()
	if a == nil {
		return
	}
	for _, o := range c.lockOwners() {
		isGraph := false
		for _, g := range a.graphImpls {
			if g == o.named {
				isGraph = true
			}
		}
		if !isGraph || len(mapFields(o.named)) < 6 {
			continue
		}
		var fn *ssa.Function
		for _, m := range c.methodsOf(o.named) {
			if m.Name() == "AddTriples" {
				fn = m
			}
		}
		key := "(" + o.named.Obj().Name() + ").AddTriples"
		if fn == nil {
			c.undecided(key, token.NoPos, "method not found")
			continue
		}
		c.analysed(funcName(fn))
		fi := c.fi(fn)
		var locks, onCycle []ssa.Instruction
		allInstrs(fn, func(in ssa.Instruction) {
			call, ok := in.(*ssa.Call)
			if !ok {
				return
			}
			if op := lockOp(&call.Call, o.lock); op != "" {
				if op == "Lock" {
					locks = append(locks, in)
				}
				if inLoop(fi, in.Block()) {
					onCycle = append(onCycle, in)
				}
			}
		})
		// index writes of the batch, made directly or through same-package helpers the index is handed to
		stores, _ := c.indexEffects(fn, o.guarded)
		written := map[*types.Var]bool{}
		var writes []ssa.Instruction
		for _, e := range stores {
			if e.inner != "" || e.outer == "" {
				written[e.field] = true
			}
			writes = append(writes, e.top)
		}
		switch {
		case len(onCycle) > 0:
			c.bad(key, onCycle[0].Pos(), "lock operation at %s lies on a cycle: the batch is split into several critical sections", c.pos(onCycle[0].Pos()))
		case len(locks) != 1:
			c.bad(key, fn.Pos(), "%d write-lock acquisitions; expected exactly one before the batch loop", len(locks))
		default:
			okAll := true
			for _, w := range writes {
				if !fi.instrDominates(locks[0], w) {
					okAll = false
				}
			}
			if okAll && len(written) >= len(o.guarded) {
				c.ok(key, fn.Pos(), "one Lock dominating the writes of all %d indexes; release only by defer; no lock operation on a cycle", len(written))
			} else if okAll {
				c.undecided(key, fn.Pos(), "element writes found for only %d of %d indexes", len(written), len(o.guarded))
			} else {
				c.bad(key, fn.Pos(), "an index write is not dominated by the Lock")
			}
		}
	}
}

// ---- S6 options read-only -------------------------------------------------------

// writesThroughParam reports a Store whose address is derived from parameter p (or a callee doing so), with a description.
func (c *Ctx) writesThroughParam(fn *ssa.Function, p *ssa.Parameter, depth int, seen map[*ssa.Function]bool) (string, bool) {
	if fn == nil || fn.Blocks == nil || depth > 3 || seen[fn] {
		return "", false
	}
	seen[fn] = true
	var msg string
	derived := func(v ssa.Value) bool { return c.derivedFromParam(v, p, 0) }
	var visit func(f *ssa.Function)
	visit = func(f *ssa.Function) {
		allInstrs(f, func(in ssa.Instruction) {
			if msg != "" {
				return
			}
			switch x := in.(type) {
			case *ssa.Store:
				if fa, ok := x.Addr.(*ssa.FieldAddr); ok && derived(fa.X) {
					msg = fmt.Sprintf("%s stores to field %s of the caller's options at %s", funcName(f), fieldName(fa.X.Type(), fa.Field), c.pos(in.Pos()))
				}
				if u, ok := x.Addr.(*ssa.UnOp); ok && derived(u) {
					msg = fmt.Sprintf("%s stores through the options pointer at %s", funcName(f), c.pos(in.Pos()))
				}
				if derived(x.Addr) {
					if _, isAlloc := x.Addr.(*ssa.Alloc); !isAlloc {
						msg = fmt.Sprintf("%s overwrites the caller's options at %s", funcName(f), c.pos(in.Pos()))
					}
				}
			case *ssa.Call, *ssa.Defer, *ssa.Go:
				cc := callCommon(in)
				callee := cc.StaticCallee()
				if callee == nil || callee.Pkg == nil || !strings.HasPrefix(callee.Pkg.Pkg.Path(), modPath) {
					return
				}
				for i, arg := range cc.Args {
					if derived(arg) && i < len(callee.Params) {
						if m, bad := c.writesThroughParam(callee, callee.Params[i], depth+1, seen); bad {
							msg = m + " (reached via " + funcName(f) + ")"
						}
					}
				}
			}
		})
		for _, an := range f.AnonFuncs {
			visit(an)
		}
	}
	visit(fn)
	return msg, msg != ""
}

// derivedFromParam: v is the pointer parameter p, a copy of it, or (inside a closure) the captured cell holding it.
func (c *Ctx) derivedFromParam(v ssa.Value, p *ssa.Parameter, depth int) bool {
	if depth > 6 {
		return false
	}
	switch x := v.(type) {
	case *ssa.Parameter:
		return x == p
	case *ssa.UnOp:
		if x.Op == token.MUL {
			switch y := x.X.(type) {
			case *ssa.Alloc:
				if sv := singleStore(y); sv != nil {
					return c.derivedFromParam(sv, p, depth+1)
				}
				// cell with several stores: derived if any store is
				for _, r := range *y.Referrers() {
					if st, ok := r.(*ssa.Store); ok && st.Addr == y && c.derivedFromParam(st.Val, p, depth+1) {
						return true
					}
				}
			case *ssa.FreeVar:
				// find the binding in the parent
				fn := y.Parent()
				idx := -1
				for i, fv := range fn.FreeVars {
					if fv == y {
						idx = i
					}
				}
				if par := fn.Parent(); par != nil && idx >= 0 {
					found := false
					withClosures(par, func(f *ssa.Function) {
						allInstrs(f, func(in ssa.Instruction) {
							if mc, ok := in.(*ssa.MakeClosure); ok && mc.Fn == fn && idx < len(mc.Bindings) {
								if al, ok := mc.Bindings[idx].(*ssa.Alloc); ok {
									for _, r := range *al.Referrers() {
										if st, ok := r.(*ssa.Store); ok && st.Addr == al && c.derivedFromParam(st.Val, p, depth+1) {
											found = true
										}
									}
								}
							}
						})
					})
					return found
				}
			}
		}
	case *ssa.ChangeType:
		return c.derivedFromParam(x.X, p, depth+1)
	case *ssa.Phi:
		for _, e := range x.Edges {
			if c.derivedFromParam(e, p, depth+1) {
				return true
			}
		}
	case *ssa.Extract:
		if call, ok := x.Tuple.(*ssa.Call); ok {
			return c.callMayReturnArgOf(call, x.Index, p, depth)
		}
	case *ssa.Call:
		return c.callMayReturnArgOf(x, 0, p, depth)
	}
	return false
}

// callMayReturnArgOf: result resIdx of the call can be one of the callee's own parameters (the module callee returns
// it on some path), and the matching argument is derived from p — the result then aliases p.
func (c *Ctx) callMayReturnArgOf(call *ssa.Call, resIdx int, p *ssa.Parameter, depth int) bool {
	callee := call.Call.StaticCallee()
	if callee == nil || callee.Pkg == nil || !strings.HasPrefix(callee.Pkg.Pkg.Path(), modPath) || len(callee.Blocks) == 0 || depth > 4 {
		return false
	}
	for _, r := range c.returnsOf(callee) {
		rv := resultValues(r)
		if resIdx >= len(rv) {
			continue
		}
		for pi, cp := range callee.Params {
			if pi < len(call.Call.Args) && c.derivedFromParam(rv[resIdx], cp, depth+1) && c.derivedFromParam(call.Call.Args[pi], p, depth+1) {
				return true
			}
		}
	}
	return false
}

func ruleS6(c *Ctx) {
	c.Rule("S6", "no storage.Graph method (nor a module function it hands the pointer to, three levels deep, closures included) stores through its *storage.LookupOptions parameter: the options value belongs to the caller and may be shared between goroutines", 20)
	a := c.storeAnchors()
	if a == nil {
		return
	}
	for _, n := range a.graphImpls {
		for _, fn := range c.methodsOf(n) {
			p := paramOfNamed(fn, modPath+"/storage", "LookupOptions")
			if p == nil {
				continue
			}
			c.analysed(funcName(fn))
			key := funcName(fn) + " param " + p.Name()
			if msg, bad := c.writesThroughParam(fn, p, 0, map[*ssa.Function]bool{}); bad {
				c.bad(key, fn.Pos(), "%s", msg)
			} else {
				c.ok(key, fn.Pos(), "no Store instruction has an address derived from the options pointer in the method, its closures or the module callees receiving it")
			}
		}
	}
}
