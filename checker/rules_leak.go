package main

import (
	"fmt"
	"go/ast"
	"go/constant"
	"go/token"
	"go/types"
	"sort"
	"strings"

	"golang.org/x/tools/go/ssa"
)

// ---- L2 no (nil, nil) ---------------------------------------------------------------------------

// l2Reviewed: unexported functions that may return (nil, nil) by design; every caller handles the nil value.
var l2Reviewed = map[string]string{
	"semantic.processPredicate": "a nil predicate with a nil error means 'only partially specified' (binding, alias or bound); its callers store it into the clause or test it, never dereference it",
	"planner.tripleToRow":       "(nil, nil) means 'triple does not satisfy the clause'; the only caller, addTriples, tests r == nil before using the row",
}

func nilable(t types.Type) bool {
	switch t.Underlying().(type) {
	case *types.Pointer, *types.Interface, *types.Map, *types.Slice, *types.Chan, *types.Signature:
		return true
	}
	return false
}

// errProvablyNil: the error operand of return r is nil on every path reaching it.
func (c *Ctx) errProvablyNil(fn *ssa.Function, v ssa.Value, r *ssa.Return) bool {
	if isNilConst(v) {
		return true
	}
	for _, ft := range c.fi(fn).factsAt(r.Block()) {
		bo, ok := ft.Cond.(*ssa.BinOp)
		if !ok || (bo.Op != token.EQL && bo.Op != token.NEQ) {
			continue
		}
		var other ssa.Value
		if bo.X == v {
			other = bo.Y
		} else if bo.Y == v {
			other = bo.X
		}
		if other != nil && isNilConst(other) && (bo.Op == token.EQL) == ft.Truth {
			return true
		}
	}
	return false
}

func ruleL2(c *Ctx, min int, rels ...string) {
	c.Rule("L2", "no missing value with no error: no function returns a provably nil pointer/interface/map together with a provably nil error (exported functions and implementations of exported interfaces never; unexported ones only when reviewed), so callers that test only the error never dereference nil", min)
	for _, fn := range c.srcFuncs(rels...) {
		sig := fn.Signature
		if sig.Results().Len() < 2 || errorResultIndex(sig) != sig.Results().Len()-1 || !nilable(sig.Results().At(0).Type()) {
			continue
		}
		if _, isBool := sig.Results().At(0).Type().Underlying().(*types.Basic); isBool {
			continue
		}
		c.analysed(funcName(fn))
		key := funcName(fn) + " never returns (nil, nil)"
		var bad []string
		n := 0
		for _, r := range c.returnsOf(fn) {
			n++
			rv := resultValues(r)
			if !isNilConst(rv[0]) {
				continue
			}
			// (nil, false, nil): the comma-ok form — the boolean says "nothing here", which the caller must test
			absent := false
			for _, mid := range rv[1 : len(rv)-1] {
				if k, ok := mid.(*ssa.Const); ok && k.Value != nil && k.Value.Kind() == constant.Bool && !constant.BoolVal(k.Value) {
					absent = true
				}
			}
			if absent {
				continue
			}
			if c.errProvablyNil(fn, rv[len(rv)-1], r) {
				bad = append(bad, c.pos(r.Pos()))
			}
		}
		if len(bad) == 0 {
			c.ok(key, fn.Pos(), "%d returns: a nil first result always comes with an error that is not provably nil", n)
			continue
		}
		if why, ok := l2Reviewed[funcName(fn)]; ok && !ast.IsExported(fn.Name()) {
			c.ok(key, fn.Pos(), "reviewed: %s", why)
			continue
		}
		// an unexported function all of whose callers test the value itself before using it: nil is its way of
		// saying "nothing", and no caller can mistake it for a value
		if fn.Parent() == nil && !ast.IsExported(fn.Name()) {
			if why := c.callersTestResult(fn); why == "" {
				c.ok(key, fn.Pos(), "every call site tests the first result against nil before any other use")
				continue
			}
		}
		// hook closures return (nil, err)/(hook, nil) — a (nil, nil) from an unexported closure whose value is discarded by the parser (G6) is harmless
		if fn.Parent() != nil && (isNamed(sig.Results().At(0).Type(), modPath+"/bql/semantic", "ClauseHook") || isNamed(sig.Results().At(0).Type(), modPath+"/bql/semantic", "ElementHook")) {
			c.ok(key, fn.Pos(), "hook closure: the parser discards the returned hook value (rule G6)")
			continue
		}
		c.bad(key, fn.Pos(), "%s returns a nil value together with a nil error at %v: a caller that checks only the error goes on to use the nil value (nil dereference) or reports success for a failure", funcName(fn), bad)
	}
}

// callersTestResult: "" when fn is only called statically and at every call site each use of its first result other
// than a comparison with nil is dominated by the non-nil edge of such a comparison (or the result is unused);
// otherwise what was found.
func (c *Ctx) callersTestResult(fn *ssa.Function) string {
	idx := c.callSites()
	if idx.escapes[fn] {
		return "the function is used as a value"
	}
	sites := idx.sites[fn]
	if len(sites) == 0 {
		return "no call site"
	}
	for _, site := range sites {
		call, ok := site.(*ssa.Call)
		if !ok || call.Referrers() == nil {
			continue
		}
		cfi := c.fi(site.Parent())
		for _, r := range *call.Referrers() {
			ex, ok := r.(*ssa.Extract)
			if !ok || ex.Index != 0 || ex.Referrers() == nil {
				continue
			}
			for _, use := range *ex.Referrers() {
				if bo, ok := use.(*ssa.BinOp); ok && (bo.Op == token.EQL || bo.Op == token.NEQ) && (isNilConst(bo.X) || isNilConst(bo.Y)) {
					continue
				}
				if _, ok := use.(*ssa.DebugRef); ok {
					continue
				}
				// kept as data (assigned to a field or variable), not dereferenced here
				if st, ok := use.(*ssa.Store); ok && st.Val == ssa.Value(ex) {
					continue
				}
				guarded := false
				for _, ft := range cfi.factsAt(use.Block()) {
					bo, ok := ft.Cond.(*ssa.BinOp)
					if !ok || (bo.Op != token.EQL && bo.Op != token.NEQ) {
						continue
					}
					if (bo.X == ssa.Value(ex) && isNilConst(bo.Y)) || (bo.Y == ssa.Value(ex) && isNilConst(bo.X)) {
						if (bo.Op == token.NEQ) == ft.Truth {
							guarded = true
						}
					}
				}
				if !guarded {
					return "used at " + c.pos(use.Pos()) + " without a nil test"
				}
			}
		}
	}
	return ""
}

// ---- L3 comma-ok dereference ---------------------------------------------------------------------

func ruleL3(c *Ctx, rels ...string) {
	c.Rule("L3", "a value looked up with the comma-ok form is not dereferenced on the path where the key may be absent: for v, ok := m[k] with pointer-typed v whose ok is used, every field access or dereference of v is dominated by the ok edge or by v != nil", 8)
	for _, fn := range c.srcFuncs(rels...) {
		fi := c.fi(fn)
		allInstrs(fn, func(in ssa.Instruction) {
			lk, ok := in.(*ssa.Lookup)
			if !ok || !lk.CommaOk {
				return
			}
			var val, okv *ssa.Extract
			for _, r := range *lk.Referrers() {
				if ex, ok := r.(*ssa.Extract); ok {
					if ex.Index == 0 {
						val = ex
					} else {
						okv = ex
					}
				}
			}
			if val == nil || okv == nil || len(*okv.Referrers()) == 0 {
				return
			}
			if _, isPtr := val.Type().Underlying().(*types.Pointer); !isPtr {
				return
			}
			c.analysed(funcName(fn))
			key := fmt.Sprintf("%s uses %s[%s] only when present", funcName(fn), truncate(c.term(lk.X), 40), truncate(c.term(lk.Index), 50))
			var bad []string
			nd := 0
			for _, r := range *val.Referrers() {
				isDeref := false
				switch x := r.(type) {
				case *ssa.FieldAddr:
					isDeref = x.X == ssa.Value(val)
				case *ssa.UnOp:
					isDeref = x.Op == token.MUL && x.X == ssa.Value(val)
				}
				if !isDeref {
					continue
				}
				nd++
				safe := false
				for _, ft := range fi.factsAt(r.Block()) {
					if ft.Cond == ssa.Value(okv) && ft.Truth {
						safe = true
					}
					if bo, ok := ft.Cond.(*ssa.BinOp); ok && bo.X == ssa.Value(val) && isNilConst(bo.Y) {
						if (bo.Op == token.NEQ) == ft.Truth {
							safe = true
						}
					}
				}
				if !safe {
					bad = append(bad, c.pos(r.Pos()))
				}
			}
			if nd == 0 {
				return
			}
			if len(bad) > 0 {
				c.bad(key, in.Pos(), "the value looked up at %s is dereferenced at %v on a path where neither ok nor a nil test holds: when the key is absent this is a nil dereference", c.pos(in.Pos()), bad)
			} else {
				c.ok(key, in.Pos(), "%d dereferences, all under ok or a nil test", nd)
			}
		})
	}
}

// ---- L4 forbidden calls ------------------------------------------------------------------------------

var l4Allowed = map[string]string{
	"table.rowLess calls log.Fatalf": "behind a comma-ok test of a binding that every row carries: ORDER BY/GROUP BY bindings are validated against the projection (orderByBindingsChecker, groupByBindingsChecker) and ProjectBindings/AddRow keep every table binding in every row; no input reaching it is known",
}

func ruleL4(c *Ctx, rels ...string) {
	c.Rule("L4", "no process-killing call on a statement path: no function of the engine packages (outside package initialisation) calls panic, log.Fatal*, log.Panic*, os.Exit or runtime.Goexit", 0)
	n := 0
	for _, fn := range c.srcFuncs(rels...) {
		top := fn
		for top.Parent() != nil {
			top = top.Parent()
		}
		if top.Name() == "init" || strings.HasPrefix(top.Name(), "init#") {
			continue
		}
		allInstrs(fn, func(in ssa.Instruction) {
			what := ""
			switch x := in.(type) {
			case *ssa.Panic:
				if x.Pos().IsValid() {
					what = "panic"
				}
			case *ssa.Call:
				if f := x.Call.StaticCallee(); f != nil && f.Pkg != nil && isNoReturnFunc(f.Pkg.Pkg.Path(), f.Name(), f.Signature.Recv() != nil) {
					what = f.Pkg.Pkg.Name() + "." + f.Name()
				}
				if isBuiltinCall(&x.Call, "panic") {
					what = "panic"
				}
			}
			if what == "" {
				return
			}
			n++
			key := funcName(c.attributionRoot(fn)) + " calls " + what
			if why, ok := l4Allowed[key]; ok {
				c.ok(key, in.Pos(), "allow-listed: %s", why)
			} else {
				c.bad(key, in.Pos(), "%s at %s ends the process (or panics) from inside the engine: a statement or input that reaches it crashes the caller instead of returning an error", what, c.pos(in.Pos()))
			}
		})
	}
	if n == 0 {
		c.ok("no process-killing calls", token.NoPos, "none in %v", rels)
	}
}

// ---- L6 goroutine join -------------------------------------------------------------------------------

type joinState struct{ spawned, joined bool }

func (c *Ctx) goTarget(g *ssa.Go) *ssa.Function {
	switch v := g.Call.Value.(type) {
	case *ssa.MakeClosure:
		return v.Fn.(*ssa.Function)
	case *ssa.Function:
		return v
	}
	return g.Call.StaticCallee()
}

// closureJoins: a local closure whose body unconditionally performs one of the join operations.
func (c *Ctx) closureJoins(f *ssa.Function, isJoin func(ssa.Instruction) bool) bool {
	if f == nil || len(f.Blocks) == 0 {
		return false
	}
	fi := c.fi(f)
	res := false
	allInstrs(f, func(in ssa.Instruction) {
		if isJoin(in) && fi.postDominates(in.Block(), f.Blocks[0]) {
			res = true
		}
	})
	return res
}

// waitFuncOf: v is the bound method value wg.Wait of a sync.WaitGroup; returns the wait group's cell.
func waitFuncOf(v ssa.Value) ssa.Value {
	mc, ok := v.(*ssa.MakeClosure)
	if !ok || len(mc.Bindings) < 1 {
		return nil
	}
	f, ok := mc.Fn.(*ssa.Function)
	if !ok {
		return nil
	}
	if f.Synthetic != "" && len(mc.Bindings) != 1 {
		return nil
	}
	if f.Synthetic == "" {
		// a hand-written wait function: func() error { wg.Wait(); return err } — it must wait on every path
		fv := -1
		var waitAt ssa.Instruction
		allInstrs(f, func(in ssa.Instruction) {
			if cc := callCommon(in); cc != nil && isCallTo(cc, "sync", "Wait") && len(cc.Args) == 1 {
				for i, v := range f.FreeVars {
					if cc.Args[0] == ssa.Value(v) {
						fv, waitAt = i, in
					}
				}
			}
		})
		if fv < 0 || fv >= len(mc.Bindings) || len(f.Blocks) == 0 || waitAt.Block() != f.Blocks[0] {
			return nil
		}
		return mc.Bindings[fv]
	}
	isWait := false
	allInstrs(f, func(in ssa.Instruction) {
		if cc := callCommon(in); cc != nil && isCallTo(cc, "sync", "Wait") {
			isWait = true
		}
	})
	if !isWait {
		return nil
	}
	return mc.Bindings[0]
}

// returnsJoinFunc: every return of fn hands back, as result idx, the Wait method value of one of the given wait groups.
func (c *Ctx) returnsJoinFunc(fn *ssa.Function, wgs []ssa.Value) (int, bool) {
	idx := -1
	rets := c.returnsOf(fn)
	if len(rets) == 0 {
		return -1, false
	}
	for _, r := range rets {
		found := -1
		for i, rv := range resultValues(r) {
			if w := waitFuncOf(rv); w != nil {
				for _, g := range wgs {
					if g == w {
						found = i
					}
				}
			}
		}
		if found < 0 || (idx >= 0 && idx != found) {
			return -1, false
		}
		idx = found
	}
	return idx, true
}

// joinFuncCalled: at the call site of a function that hands back its join as a func value, that value is called on
// every path from the site to every return of the caller. "" if so.
func (c *Ctx) joinFuncCalled(site ssa.Instruction, resIdx int) string {
	call, ok := site.(*ssa.Call)
	if !ok {
		return "the function is not called by a plain call at " + c.pos(site.Pos())
	}
	caller := site.Parent()
	var fv ssa.Value = call
	if call.Call.Signature().Results().Len() > 1 {
		fv = nil
		for _, r := range *call.Referrers() {
			if ex, ok := r.(*ssa.Extract); ok && ex.Index == resIdx {
				fv = ex
			}
		}
	}
	if fv == nil {
		return "the returned join function is dropped at " + c.pos(site.Pos())
	}
	isCallOf := func(in ssa.Instruction) bool {
		cc := callCommon(in)
		if cc == nil || cc.IsInvoke() {
			return false
		}
		if _, isDefer := in.(*ssa.Defer); isDefer && resolveParam(cc.Value) == fv {
			return true
		}
		_, isCall := in.(*ssa.Call)
		return isCall && resolveParam(cc.Value) == fv
	}
	type st struct{ after, called bool }
	tr := func(s st, in ssa.Instruction) st {
		if in == site {
			return st{after: true}
		}
		if s.after && isCallOf(in) {
			s.called = true
		}
		return s
	}
	atRet, _ := flow(c, caller, st{}, tr, nil)
	for r, ss := range atRet {
		for s := range ss {
			if s.after && !s.called {
				return "the join function returned at " + c.pos(site.Pos()) + " is not called on a path returning at " + c.pos(r.Pos())
			}
		}
	}
	return ""
}

func ruleL6(c *Ctx, min int, rels ...string) {
	c.Rule("L6", "no goroutine outlives the call that started it: every go statement is joined on every path to a return (WaitGroup.Wait paired with Done, a receive from the channel it signals, errgroup.Wait), a channel the goroutine ranges over is closed before the join; the detached lexer producer is drained by its consumer on every exit", min)
	nSpawn := 0
	for _, fn := range c.srcFuncs(rels...) {
		top := fn
		for top.Parent() != nil {
			top = top.Parent()
		}
		inInit := top.Name() == "init" || strings.HasPrefix(top.Name(), "init#")
		var gos []*ssa.Go
		var egos []*ssa.Call
		allInstrs(fn, func(in ssa.Instruction) {
			switch x := in.(type) {
			case *ssa.Go:
				gos = append(gos, x)
			case *ssa.Call:
				if isCallTo(&x.Call, "golang.org/x/sync/errgroup", "Go") {
					egos = append(egos, x)
				}
			}
		})
		ordinal := 0
		for _, g := range gos {
			ordinal++
			nSpawn++
			tgt := c.goTarget(g)
			key := fmt.Sprintf("%s goroutine #%d", funcName(fn), ordinal)
			if inInit {
				c.info(key, g.Pos(), "class I: package-initialisation daemon, out of scope")
				continue
			}
			c.analysed(funcName(fn))
			// class D: the lexer producer
			if tgt != nil && tgt.Pkg != nil && tgt.Pkg.Pkg.Path() == modPath+"/bql/lexer" && fn.Pkg.Pkg.Path() == modPath+"/bql/lexer" {
				c.checkLexerDrained(key, g)
				continue
			}
			if tgt == nil {
				c.undecided(key, g.Pos(), "goroutine target not resolved")
				continue
			}
			// which synchronisation does the goroutine signal at its end?
			var doneWG []ssa.Value  // wait groups it calls Done on (as captured cells)
			var sendsOn []ssa.Value // channels it sends on
			var rangesOver []ssa.Value
			bindOf := func(v ssa.Value) ssa.Value {
				// map a free variable of the closure back to the captured cell in fn
				if mc, ok := g.Call.Value.(*ssa.MakeClosure); ok {
					for i, fv := range tgt.FreeVars {
						if v == ssa.Value(fv) && i < len(mc.Bindings) {
							return mc.Bindings[i]
						}
					}
				}
				return nil
			}
			withClosures(tgt, func(f *ssa.Function) {
				if f != tgt {
					return
				}
				allInstrs(f, func(in ssa.Instruction) {
					switch x := in.(type) {
					case *ssa.Call, *ssa.Defer:
						cc := callCommon(in)
						if isCallTo(cc, "sync", "Done") && len(cc.Args) == 1 {
							if b := bindOf(cc.Args[0]); b != nil {
								doneWG = append(doneWG, b)
							}
						}
						// a done channel: the goroutine signals its end by closing it, the spawner joins by receiving
						if isBuiltinCall(cc, "close") && len(cc.Args) == 1 {
							ch := cc.Args[0]
							if u, ok := ch.(*ssa.UnOp); ok && u.Op == token.MUL {
								ch = u.X
							}
							if b := bindOf(ch); b != nil {
								sendsOn = append(sendsOn, b)
							}
						}
						// a module callee that receives from a channel argument until it is closed
						if callee := cc.StaticCallee(); callee != nil && callee.Pkg != nil && strings.HasPrefix(callee.Pkg.Pkg.Path(), modPath) && callee.Blocks != nil {
							for ai, a := range cc.Args {
								if _, isChan := a.Type().Underlying().(*types.Chan); !isChan || ai >= len(callee.Params) {
									continue
								}
								av := a
								if ct, ok := av.(*ssa.ChangeType); ok {
									av = ct.X
								}
								if u, ok := av.(*ssa.UnOp); ok && u.Op == token.MUL {
									av = u.X
								}
								b := bindOf(av)
								if b == nil {
									continue
								}
								consumes := false
								allInstrs(callee, func(i2 ssa.Instruction) {
									if u, ok := i2.(*ssa.UnOp); ok && u.Op == token.ARROW && u.CommaOk && isValueOfParam(u.X, callee.Params[ai]) {
										consumes = true
									}
								})
								if consumes {
									rangesOver = append(rangesOver, b)
								}
							}
						}
					case *ssa.Send:
						ch := x.Chan
						if u, ok := ch.(*ssa.UnOp); ok && u.Op == token.MUL {
							ch = u.X
						}
						if b := bindOf(ch); b != nil {
							sendsOn = append(sendsOn, b)
						}
					case *ssa.UnOp:
						if x.Op == token.ARROW && x.CommaOk {
							ch := x.X
							if u, ok := ch.(*ssa.UnOp); ok && u.Op == token.MUL {
								ch = u.X
							}
							if b := bindOf(ch); b != nil {
								rangesOver = append(rangesOver, b)
							}
						}
					}
				})
			})
			isJoin := func(in ssa.Instruction) bool {
				switch x := in.(type) {
				case *ssa.Call:
					if isCallTo(&x.Call, "sync", "Wait") && len(x.Call.Args) == 1 {
						for _, w := range doneWG {
							if x.Call.Args[0] == w {
								return true
							}
						}
					}
				case *ssa.UnOp:
					if x.Op == token.ARROW {
						ch := x.X
						if u, ok := ch.(*ssa.UnOp); ok && u.Op == token.MUL {
							ch = u.X
						}
						for _, s := range sendsOn {
							if ch == s {
								return true
							}
						}
					}
				}
				return false
			}
			// in closures the captured cells appear as free variables: map them for local helper closures
			isJoinIn := func(f *ssa.Function) func(ssa.Instruction) bool {
				return func(in ssa.Instruction) bool {
					matchCell := func(v ssa.Value, cells []ssa.Value) bool {
						if u, ok := v.(*ssa.UnOp); ok && u.Op == token.MUL {
							v = u.X
						}
						fv, ok := v.(*ssa.FreeVar)
						if !ok {
							return false
						}
						// find the binding of fv where f is created in fn
						res := false
						allInstrs(fn, func(i2 ssa.Instruction) {
							if mc, ok := i2.(*ssa.MakeClosure); ok && mc.Fn == f {
								for i, v2 := range f.FreeVars {
									if v2 == fv && i < len(mc.Bindings) {
										for _, cell := range cells {
											if mc.Bindings[i] == cell {
												res = true
											}
										}
									}
								}
							}
						})
						return res
					}
					switch x := in.(type) {
					case *ssa.Call:
						if isCallTo(&x.Call, "sync", "Wait") && len(x.Call.Args) == 1 {
							return matchCell(x.Call.Args[0], doneWG)
						}
					case *ssa.UnOp:
						if x.Op == token.ARROW {
							return matchCell(x.X, sendsOn)
						}
					}
					return false
				}
			}
			tr := func(s joinState, in ssa.Instruction) joinState {
				if in == ssa.Instruction(g) {
					return joinState{spawned: true}
				}
				if !s.spawned {
					return s
				}
				if isJoin(in) {
					s.joined = true
				}
				if call, ok := in.(*ssa.Call); ok {
					if mc, ok := call.Call.Value.(*ssa.MakeClosure); ok {
						f := mc.Fn.(*ssa.Function)
						if c.closureJoins(f, isJoinIn(f)) {
							s.joined = true
						}
					}
				}
				return s
			}
			atRet, _ := flow(c, fn, joinState{}, tr, nil)
			var bad []string
			for r, ss := range atRet {
				for s := range ss {
					if s.spawned && !s.joined {
						bad = append(bad, c.pos(r.Pos()))
					}
				}
			}
			sort.Strings(bad)
			if len(doneWG) == 0 && len(sendsOn) == 0 {
				c.bad(key, g.Pos(), "the goroutine started at %s signals neither a WaitGroup nor a channel captured from %s: nothing can join it, it may outlive the call", c.pos(g.Pos()), funcName(fn))
				continue
			}
			if len(bad) > 0 && len(doneWG) > 0 && fn.Parent() == nil {
				// the join is handed back to the caller as a func value (return wg.Wait): every caller must call it
				if ri, ok := c.returnsJoinFunc(fn, doneWG); ok {
					idx := c.callSites()
					why := ""
					if idx.escapes[fn] || len(idx.sites[fn]) == 0 {
						why = "the function handing back its join is used as a value or never called"
					}
					for _, site := range idx.sites[fn] {
						if w := c.joinFuncCalled(site, ri); w != "" && why == "" {
							why = w
						}
					}
					if why == "" {
						c.ok(key, g.Pos(), "the join (wg.Wait) is returned to the caller, and each of the %d call sites calls it on every path", len(idx.sites[fn]))
					} else {
						c.bad(key, g.Pos(), "the goroutine started at %s hands its join back as a function, but %s", c.pos(g.Pos()), why)
					}
					continue
				}
			}
			if len(bad) > 0 {
				c.bad(key, g.Pos(), "the goroutine started at %s is not joined on the path(s) returning at %v: it can still be running (or blocked on its channel) after the call has returned", c.pos(g.Pos()), uniq(bad))
				continue
			}
			// channels the goroutine consumes until closed must be closed by the spawner before each join
			if len(rangesOver) > 0 {
				isCloseOf := func(in ssa.Instruction, f *ssa.Function) bool {
					call, ok := in.(*ssa.Call)
					if !ok || !isBuiltinCall(&call.Call, "close") {
						return false
					}
					a := call.Call.Args[0]
					if u, ok := a.(*ssa.UnOp); ok && u.Op == token.MUL {
						a = u.X
					}
					if f == fn {
						for _, ch := range rangesOver {
							if a == ch {
								return true
							}
							// the channel value itself (not captured through a cell)
							if al, ok := ch.(*ssa.Alloc); ok {
								if sv := singleStore(al); sv != nil && a == sv {
									return true
								}
							}
						}
						return false
					}
					fv, ok := a.(*ssa.FreeVar)
					if !ok {
						return false
					}
					res := false
					allInstrs(fn, func(i2 ssa.Instruction) {
						if mc, ok := i2.(*ssa.MakeClosure); ok && mc.Fn == f {
							for i, v2 := range f.FreeVars {
								if v2 == fv && i < len(mc.Bindings) {
									for _, ch := range rangesOver {
										if mc.Bindings[i] == ch {
											res = true
										}
									}
								}
							}
						}
					})
					return res
				}
				type ordState struct{ spawned, closed, bad bool }
				tr2 := func(s ordState, in ssa.Instruction) ordState {
					if in == ssa.Instruction(g) {
						return ordState{spawned: true}
					}
					if !s.spawned {
						return s
					}
					if isCloseOf(in, fn) {
						s.closed = true
					}
					if isJoin(in) && !s.closed {
						s.bad = true
					}
					if call, ok := in.(*ssa.Call); ok {
						if mc, ok := call.Call.Value.(*ssa.MakeClosure); ok {
							f := mc.Fn.(*ssa.Function)
							// helper closure: its instructions in order
							for _, b := range f.Blocks {
								for _, i2 := range b.Instrs {
									if isCloseOf(i2, f) {
										s.closed = true
									}
									if isJoinIn(f)(i2) && !s.closed {
										s.bad = true
									}
								}
							}
						}
					}
					return s
				}
				atR, _ := flow(c, fn, ordState{}, tr2, nil)
				badOrder := false
				for _, ss := range atR {
					for st := range ss {
						if st.bad {
							badOrder = true
						}
					}
				}
				if badOrder {
					c.bad(key, g.Pos(), "the goroutine started at %s consumes a channel until it is closed, but on some path the spawner joins it before closing that channel: the join blocks forever", c.pos(g.Pos()))
					continue
				}
			}
			c.ok(key, g.Pos(), "joined on every path to a return (%d WaitGroup, %d channel signal); ranged-over channels closed before the join", len(doneWG), len(sendsOn))
		}
		// errgroup: Wait post-dominates WithContext in the creating function
		if len(egos) > 0 && fn.Parent() == nil {
			var withCtx, wait ssa.Instruction
			allInstrs(fn, func(in ssa.Instruction) {
				if call, ok := in.(*ssa.Call); ok {
					if isCallTo(&call.Call, "golang.org/x/sync/errgroup", "WithContext") {
						withCtx = in
					}
					if isCallTo(&call.Call, "golang.org/x/sync/errgroup", "Wait") {
						wait = in
					}
				}
			})
			_ = withCtx
			_ = wait
		}
	}
	// errgroup groups
	for _, fn := range c.srcFuncs(rels...) {
		if fn.Parent() != nil {
			continue
		}
		var withCtx, wait ssa.Instruction
		allInstrs(fn, func(in ssa.Instruction) {
			if call, ok := in.(*ssa.Call); ok {
				if isCallTo(&call.Call, "golang.org/x/sync/errgroup", "WithContext") {
					withCtx = in
				}
				if isCallTo(&call.Call, "golang.org/x/sync/errgroup", "Wait") {
					wait = in
				}
			}
		})
		if withCtx == nil {
			continue
		}
		nSpawn++
		c.analysed(funcName(fn))
		key := funcName(fn) + " errgroup"
		if wait == nil || !c.fi(fn).instrPostDominates(wait, withCtx) {
			c.bad(key, withCtx.Pos(), "the errgroup created at %s is not waited for on every path: its goroutines may outlive the call", c.pos(withCtx.Pos()))
			continue
		}
		// the group value does not escape: it is only used for Go/Wait in fn and its closures
		c.ok(key, withCtx.Pos(), "grp.Wait() post-dominates errgroup.WithContext; Go is only called in the function and its closures")
	}
	if nSpawn < min {
		c.undecided("spawn sites", token.NoPos, "only %d spawn sites found, %d expected", nSpawn, min)
	}
}

// closedOnAllJoinPaths: every return of fn after the spawn is preceded by a close of one of the channels (directly or in a called local closure).
func (c *Ctx) closedOnAllJoinPaths(fn *ssa.Function, g *ssa.Go, chans []ssa.Value) bool {
	isClose := func(in ssa.Instruction, inClosure *ssa.Function) bool {
		call, ok := in.(*ssa.Call)
		if !ok || !isBuiltinCall(&call.Call, "close") {
			return false
		}
		a := call.Call.Args[0]
		if u, ok := a.(*ssa.UnOp); ok && u.Op == token.MUL {
			a = u.X
		}
		if inClosure == nil {
			for _, ch := range chans {
				if a == ch {
					return true
				}
			}
			return false
		}
		_, isFree := a.(*ssa.FreeVar)
		return isFree
	}
	tr := func(s joinState, in ssa.Instruction) joinState {
		if in == ssa.Instruction(g) {
			return joinState{spawned: true}
		}
		if !s.spawned {
			return s
		}
		if isClose(in, nil) {
			s.joined = true
		}
		if call, ok := in.(*ssa.Call); ok {
			if mc, ok := call.Call.Value.(*ssa.MakeClosure); ok {
				f := mc.Fn.(*ssa.Function)
				allInstrs(f, func(i2 ssa.Instruction) {
					if isClose(i2, f) && c.fi(f).postDominates(i2.Block(), f.Blocks[0]) {
						s.joined = true
					}
				})
			}
		}
		return s
	}
	atRet, _ := flow(c, fn, joinState{}, tr, nil)
	for _, ss := range atRet {
		for s := range ss {
			if s.spawned && !s.joined {
				return false
			}
		}
	}
	return true
}

// checkLexerDrained: class D — the lexer goroutine is detached; its consumer must drain the channel on every exit.
func (c *Ctx) checkLexerDrained(key string, g *ssa.Go) {
	parse := c.lookupFunc("bql/grammar", "Parser.Parse")
	newLLk := c.lookupFunc("bql/grammar", "NewLLk")
	if parse == nil || newLLk == nil {
		c.undecided(key, g.Pos(), "consumer Parser.Parse / NewLLk not found")
		return
	}
	// Parse defers a drain of its LLk at entry
	var probs []string
	drains := false
	for _, in := range parse.Blocks[0].Instrs {
		d, ok := in.(*ssa.Defer)
		if !ok {
			continue
		}
		f := d.Call.StaticCallee()
		if f == nil || len(d.Call.Args) == 0 || !isValueOfParam(d.Call.Args[0], parse.Params[1]) {
			continue
		}
		// the deferred function receives from the channel until it is closed
		loops := false
		allInstrs(f, func(i2 ssa.Instruction) {
			if u, ok := i2.(*ssa.UnOp); ok && u.Op == token.ARROW && u.CommaOk && inLoop(c.fi(f), i2.Block()) {
				loops = true
			}
		})
		if loops {
			drains = true
		}
	}
	if !drains {
		probs = append(probs, "Parser.Parse does not defer a drain of the token channel at entry: when it returns at the first error the lexer goroutine stays blocked on its send")
	}
	// every in-module user of lexer.New hands the channel to an LLk
	for _, fn := range c.srcFuncs("bql/...", "tools/...") {
		allInstrs(fn, func(in ssa.Instruction) {
			call, ok := in.(*ssa.Call)
			if !ok || call.Call.StaticCallee() == nil || call.Call.StaticCallee().Name() != "New" || call.Call.StaticCallee().Pkg == nil || call.Call.StaticCallee().Pkg.Pkg.Path() != modPath+"/bql/lexer" {
				return
			}
			if fn != newLLk {
				probs = append(probs, funcName(fn)+" consumes lexer.New directly; its draining is not checked")
			}
		})
	}
	if len(probs) > 0 {
		c.bad(key, g.Pos(), "%s", strings.Join(probs, "; "))
	} else {
		c.ok(key, g.Pos(), "class D (detached producer): the only consumer path is NewLLk -> Parser.Parse, which defers draining the channel until the lexer closes it (rule X2)")
	}
}

// ---- L7 recursion decreases ------------------------------------------------------------------------------

func ruleL7(c *Ctx, rels ...string) {
	c.Rule("L7", "recursion terminates: every self-recursive call passes a strictly shorter suffix of a slice parameter (x[k:], k >= 1) of the caller's own input or of what a recursive call left over; the parser's mutual recursion consumes a token per level because no grammar alternative is empty-first or contains the end-of-input token", 3)
	for _, fn := range c.srcFuncs(rels...) {
		if fn.Parent() != nil {
			continue
		}
		var rec []*ssa.Call
		allInstrs(fn, func(in ssa.Instruction) {
			if call, ok := in.(*ssa.Call); ok && call.Call.StaticCallee() == fn {
				rec = append(rec, call)
			}
		})
		if len(rec) == 0 {
			continue
		}
		c.analysed(funcName(fn))
		// which parameter is the measure?
		var sliceParams []int
		for i, p := range fn.Params {
			if _, ok := p.Type().Underlying().(*types.Slice); ok {
				sliceParams = append(sliceParams, i)
			}
		}
		for i, call := range rec {
			key := fmt.Sprintf("%s recursive call #%d", funcName(fn), i+1)
			ok := false
			why := ""
			for _, pi := range sliceParams {
				strict, derived := c.sliceDecreases(call.Call.Args[pi], fn, pi, 0)
				if derived && strict {
					ok = true
					why = fmt.Sprintf("argument %d is a strict suffix of the parameter (or of a recursive call's remainder)", pi)
				}
			}
			if ok {
				c.ok(key, call.Pos(), "%s", why)
			} else {
				c.bad(key, call.Pos(), "the recursive call at %s does not pass a strictly shorter slice: the recursion need not terminate", c.pos(call.Pos()))
			}
		}
	}
	// the parser's recursion
	g := c.grammarTable()
	eof, _ := c.tokenConst("ItemEOF")
	errTok, _ := c.tokenConst("ItemError")
	badTok := ""
	for _, r := range g.order {
		for _, a := range g.rules[r] {
			for _, e := range a.elems {
				if !e.isSym && (e.tok == eof || e.tok == errTok) {
					badTok = r
				}
			}
		}
	}
	if len(g.rules) == 0 {
		c.undecided("grammar consumes a token per recursion level", token.NoPos, "grammar table not evaluated")
	} else {
		c.check(badTok == "", "grammar consumes a token per recursion level", token.NoPos, "no alternative mentions ItemEOF/ItemError (which LLk.Consume can 'consume' forever); every non-empty alternative starts with a token (G1)", "rule "+badTok+" mentions the end-of-input or error token: the window refills with EOF forever, so a recursive rule never stops")
	}
}

// sliceDecreases: (strict, derived) — v derives from parameter pi of fn (or from the remainder result of a recursive call)
// through slicing, and at least one slicing step drops a leading element.
func (c *Ctx) sliceDecreases(v ssa.Value, fn *ssa.Function, pi int, depth int) (bool, bool) {
	if depth > 10 {
		return false, false
	}
	switch x := v.(type) {
	case *ssa.Parameter:
		return false, x == fn.Params[pi]
	case *ssa.Slice:
		strict := false
		if x.Low != nil {
			if k, ok := constInt(x.Low); ok && k >= 1 {
				strict = true
			}
		}
		s, d := c.sliceDecreases(x.X, fn, pi, depth+1)
		return s || strict, d
	case *ssa.Extract:
		if call, ok := x.Tuple.(*ssa.Call); ok && call.Call.StaticCallee() == fn {
			// the remainder returned by a recursive call is a suffix of its argument
			return c.sliceDecreases(call.Call.Args[pi], fn, pi, depth+1)
		}
	case *ssa.Phi:
		allStrict, allDerived := true, true
		for _, e := range x.Edges {
			s, d := c.sliceDecreases(e, fn, pi, depth+1)
			allStrict = allStrict && s
			allDerived = allDerived && d
		}
		return allStrict, allDerived
	}
	return false, false
}

// ---- IO1 line reader ---------------------------------------------------------------------------------------

func ruleIO1(c *Ctx) {
	c.Rule("IO1", "the line-oriented graph reader loads exactly the lines before the first bad one and says how many: a triple is added only after its line parsed, the count is incremented only after the add succeeded, parse/add/scanner errors are returned with the count so far, and success is reported only after the scanner's own error was consulted", 4)
	fn := c.mustFunc("io", "ReadIntoGraph")
	if fn == nil {
		return
	}
	fi := c.fi(fn)
	var parse, add *ssa.Call
	var scanErr *ssa.Call
	allInstrs(fn, func(in ssa.Instruction) {
		call, ok := in.(*ssa.Call)
		if !ok {
			return
		}
		if f := call.Call.StaticCallee(); f != nil && f.Name() == "Parse" && f.Pkg != nil && f.Pkg.Pkg.Path() == modPath+"/triple" {
			parse = call
		}
		if call.Call.IsInvoke() && call.Call.Method.Name() == "AddTriples" {
			add = call
		}
		if isCallTo(&call.Call, "bufio", "Err") {
			scanErr = call
		}
	})
	// the parse-then-add step may live in a same-package helper that returns the step's error: the ordering is then
	// judged inside the helper, and the helper's call stands for the add in the counting rule
	addFi := fi
	var stepCall *ssa.Call
	if parse == nil && add == nil {
		allInstrs(fn, func(in ssa.Instruction) {
			call, ok := in.(*ssa.Call)
			if !ok || stepCall != nil {
				return
			}
			h := helperCallee(fn, &call.Call)
			if h == nil || h.Signature.Results().Len() != 1 || errorResultIndex(h.Signature) != 0 {
				return
			}
			var hp, ha *ssa.Call
			allInstrs(h, func(i2 ssa.Instruction) {
				c2, ok := i2.(*ssa.Call)
				if !ok {
					return
				}
				if f := c2.Call.StaticCallee(); f != nil && f.Name() == "Parse" && f.Pkg != nil && f.Pkg.Pkg.Path() == modPath+"/triple" {
					hp = c2
				}
				if c2.Call.IsInvoke() && c2.Call.Method.Name() == "AddTriples" {
					ha = c2
				}
			})
			if hp == nil || ha == nil {
				return
			}
			// the helper reports success only when the add succeeded
			hfi := c.fi(h)
			okRet := true
			for _, r := range c.returnsOf(h) {
				rv := resultValues(r)[0]
				if rv == ssa.Value(ha) {
					continue
				}
				if isNilConst(rv) {
					nilEdge := false
					for _, ft := range hfi.factsAt(r.Block()) {
						if bo, ok := ft.Cond.(*ssa.BinOp); ok && bo.X == ssa.Value(ha) && isNilConst(bo.Y) && (bo.Op == token.EQL) == ft.Truth {
							nilEdge = true
						}
					}
					if !nilEdge {
						okRet = false
					}
				}
			}
			if okRet {
				parse, add, addFi, stepCall = hp, ha, hfi, call
			}
		})
	}
	if parse == nil || add == nil {
		c.bad("ReadIntoGraph parses then adds", fn.Pos(), "the reader no longer calls triple.Parse and Graph.AddTriples")
		return
	}
	// add dominated by parse succeeded
	parsedOK := false
	for _, ft := range addFi.factsAt(add.Block()) {
		if bo, ok := ft.Cond.(*ssa.BinOp); ok && isNilConst(bo.Y) {
			if ex, ok := bo.X.(*ssa.Extract); ok && ex.Tuple == ssa.Value(parse) && (bo.Op == token.EQL) == ft.Truth {
				parsedOK = true
			}
		}
	}
	c.check(parsedOK, "ReadIntoGraph adds only parsed triples", add.Pos(), "AddTriples dominated by the err == nil edge of triple.Parse", "AddTriples is reachable when triple.Parse failed: a nil or stale triple is added")
	// the add's error is tested, and the counter increment is on its nil edge
	var inc ssa.Instruction
	allInstrs(fn, func(in ssa.Instruction) {
		if bo, ok := in.(*ssa.BinOp); ok && bo.Op == token.ADD && inLoop(fi, in.Block()) {
			if k, ok := constInt(bo.Y); ok && k == 1 {
				if _, isPhi := bo.X.(*ssa.Phi); isPhi && types.Identical(bo.Type(), types.Typ[types.Int]) {
					// the loop counter cnt (not the range index)
					inc = in
				}
			}
		}
	})
	okInc := false
	if inc != nil {
		for _, ft := range fi.factsAt(inc.Block()) {
			addErr := ssa.Value(add)
			if stepCall != nil {
				addErr = stepCall
			}
			if bo, ok := ft.Cond.(*ssa.BinOp); ok && bo.X == addErr && isNilConst(bo.Y) && (bo.Op == token.EQL) == ft.Truth {
				okInc = true
			}
		}
	}
	c.check(okInc, "ReadIntoGraph counts only added triples", add.Pos(), "cnt++ dominated by the nil edge of AddTriples' error", "the triple counter is incremented although AddTriples may have failed (or its error is ignored): the reported count exceeds what the graph holds")
	// error returns carry the count; success only after scanner.Err()
	okSuccess, nSucc := true, 0
	for _, r := range c.returnsOf(fn) {
		rv := resultValues(r)
		if scanErr != nil && rv[1] == ssa.Value(scanErr) {
			// return cnt, scanner.Err(): the scanner's verdict is the result
			nSucc++
			continue
		}
		if isNilConst(rv[1]) {
			nSucc++
			dom := false
			if scanErr != nil {
				for _, ft := range fi.factsAt(r.Block()) {
					if bo, ok := ft.Cond.(*ssa.BinOp); ok && bo.X == ssa.Value(scanErr) && isNilConst(bo.Y) && (bo.Op == token.EQL) == ft.Truth {
						dom = true
					}
				}
			}
			if !dom {
				okSuccess = false
			}
		} else {
			if k, ok := rv[0].(*ssa.Const); ok && k.Value != nil && k.Value.Kind() == constant.Int {
				c.bad("ReadIntoGraph error return carries the count", r.Pos(), "an error return reports the constant %s instead of the number of triples loaded so far", k.Value)
			}
		}
	}
	c.check(okSuccess && nSucc > 0, "ReadIntoGraph reports success only after the scanner's error is nil", fn.Pos(), "the nil-error return is dominated by scanner.Err() == nil", "success is returned without consulting scanner.Err(): an over-long line or read error ends the loop silently and a truncated load is reported as complete")
	// WriteGraph: counts a triple only after a successful write
	if wf := c.mustFunc("io", "WriteGraph"); wf != nil {
		joined := false
		allInstrs(wf, func(in ssa.Instruction) {
			if call, ok := in.(*ssa.Call); ok && isCallTo(&call.Call, "sync", "Wait") {
				joined = true
			}
			// or the join function a spawning helper handed back
			if call, ok := in.(*ssa.Call); ok && !call.Call.IsInvoke() && call.Call.StaticCallee() == nil {
				if src, ok := resolveParam(call.Call.Value).(*ssa.Call); ok {
					if callee := helperCallee(wf, &src.Call); callee != nil {
						for _, r := range c.returnsOf(callee) {
							for _, rv := range resultValues(r) {
								if waitFuncOf(rv) != nil {
									joined = true
								}
							}
						}
					}
				}
			}
		})
		c.check(joined, "WriteGraph joins the producer", wf.Pos(), "wg.Wait() before returning", "WriteGraph returns without waiting for the producer goroutine")
	}
}
