package main

import (
	"fmt"
	"go/constant"
	"go/token"
	"go/types"
	"sort"
	"strings"

	"golang.org/x/tools/go/ssa"
)

// Rules added after the second round of seeded changes (DESIGN.md §0.2).

// ---- HK1 a modifier token remembered by a hook is consumed when it is used ----------------------------------------

// tokenCells returns the captured *lexer.Token cells of a hook closure (free variables of type **lexer.Token).
func tokenCells(fn *ssa.Function) []*ssa.FreeVar {
	var out []*ssa.FreeVar
	for _, fv := range fn.FreeVars {
		p, ok := fv.Type().Underlying().(*types.Pointer)
		if !ok {
			continue
		}
		q, ok := p.Elem().Underlying().(*types.Pointer)
		if !ok {
			continue
		}
		if isNamed(q.Elem(), modPath+"/bql/lexer", "Token") {
			out = append(out, fv)
		}
	}
	return out
}

func ruleHK1(c *Ctx) {
	c.Rule("HK1", "a semantic hook that remembers the last modifier token (AS, TYPE, ID, AT, ...) in a captured variable forgets it once it has used it: on every path of the hook that reads the remembered token, finds it non-nil and returns success, the variable is assigned again (nil or the current token) after that read; a remembered token that survives its use is applied again to the next binding, clause or statement parsed with the same hook", 4)
	n := 0
	for _, fn := range c.srcFuncs("bql/semantic") {
		if fn.Parent() == nil {
			continue
		}
		cells := tokenCells(fn)
		if len(cells) > 1 {
			// several remembered tokens form a small state machine (the global time bound collector), not the
			// use-once modifier pattern this rule is about
			c.info(funcName(fn)+" remembers several tokens", fn.Pos(), "%d token variables: a multi-token state machine, not decided by this rule", len(cells))
			continue
		}
		for _, cell := range cells {
			n++
			key := funcName(fn) + " consumes " + cell.Name()
			isLoad := func(v ssa.Value) bool {
				u, ok := v.(*ssa.UnOp)
				return ok && u.Op == token.MUL && u.X == cell
			}
			// 0 untouched since entry; 1 read and possibly non-nil, not reassigned since; 2 reassigned or known nil;
			// 3 an unconditional reassignment is deferred (sticky)
			transfer := func(s int, in ssa.Instruction) int {
				if s == 3 {
					return 3
				}
				switch x := in.(type) {
				case *ssa.Store:
					if x.Addr == cell {
						return 2
					}
				case *ssa.UnOp:
					if isLoad(x) && s == 0 {
						return 1
					}
				case *ssa.Defer:
					// defer func() { cell = nil }(): every later return leaves through the reassignment
					if mc, ok := x.Call.Value.(*ssa.MakeClosure); ok {
						dfn := mc.Fn.(*ssa.Function)
						for i, b := range mc.Bindings {
							if b != cell {
								continue
							}
							stores := false
							allInstrs(dfn, func(di ssa.Instruction) {
								if st, ok := di.(*ssa.Store); ok && st.Addr == dfn.FreeVars[i] {
									stores = true
								}
							})
							if stores && len(dfn.Blocks) == 1 {
								return 3
							}
						}
					}
				}
				return s
			}
			edge := func(s int, b *ssa.BasicBlock, si int) (int, bool) {
				iff, ok := b.Instrs[len(b.Instrs)-1].(*ssa.If)
				if !ok {
					return s, true
				}
				bo, ok := iff.Cond.(*ssa.BinOp)
				if !ok || (bo.Op != token.EQL && bo.Op != token.NEQ) {
					return s, true
				}
				if !(isLoad(bo.X) && isNilConst(bo.Y)) && !(isLoad(bo.Y) && isNilConst(bo.X)) {
					return s, true
				}
				nilEdge := 0
				if bo.Op == token.NEQ {
					nilEdge = 1
				}
				if si == nilEdge && s == 1 {
					return 2, true
				}
				return s, true
			}
			atRet, _ := flow(c, fn, 0, transfer, edge)
			badAt := ""
			var rets []*ssa.Return
			for r := range atRet {
				rets = append(rets, r)
			}
			sort.Slice(rets, func(i, j int) bool { return rets[i].Pos() < rets[j].Pos() })
			for _, r := range rets {
				res := resultValues(r)
				if len(res) == 0 || !isNilConst(res[len(res)-1]) {
					continue // error return: the statement is abandoned
				}
				if atRet[r][1] {
					badAt = c.pos(r.Pos())
					break
				}
			}
			c.check(badAt == "", key, fn.Pos(), "every successful path that reads the remembered token reassigns it afterwards or found it nil",
				"the hook can return success at "+badAt+" after reading a non-nil "+cell.Name()+" without reassigning it: the stale modifier is applied to the next binding (next clause, or next statement on a reused parser), so the meaning of a clause depends on what preceded it")
		}
	}
	if n < 4 {
		c.undecided("hooks with a remembered token", token.NoPos, "only %d found, 4 confirmed by reading (subject, predicate, object clauses and the projection accumulator)", n)
	}
}

// ---- S9z the checker takes the anchor of every temporal lookup predicate --------------------------------------------

func ruleS9z(c *Ctx) {
	c.Rule("S9z", "newChecker records the time anchor of the lookup predicate whenever there is a predicate and its TimeAnchor() succeeds: the anchor stored in the checker is the first result of op.TimeAnchor(), taken under no condition other than op != nil and err == nil; any further condition lets some temporal lookup predicate match triples anchored at other instants", 1)
	fn := c.mustFunc("storage/memory", "newChecker")
	if fn == nil {
		return
	}
	_ = c.fi(fn)
	key := "newChecker records every anchor"
	var stored ssa.Value
	var storePos token.Pos
	allInstrs(fn, func(in ssa.Instruction) {
		st, ok := in.(*ssa.Store)
		if !ok {
			return
		}
		fa, ok := st.Addr.(*ssa.FieldAddr)
		if !ok {
			return
		}
		if isNamed(derefType(fieldVar(fa.X.Type(), fa.Field).Type()), "time", "Time") {
			stored, storePos = st.Val, st.Pos()
		}
	})
	if stored == nil {
		c.undecided(key, fn.Pos(), "no store of a *time.Time field found in newChecker")
		return
	}
	var probs []string
	found := false
	var visit func(v ssa.Value, from *ssa.BasicBlock, in *ssa.Function, d int)
	visit = func(v ssa.Value, from *ssa.BasicBlock, in *ssa.Function, d int) {
		if d > 6 {
			probs = append(probs, "anchor value too deep to resolve")
			return
		}
		switch x := v.(type) {
		case *ssa.Phi:
			for i, e := range x.Edges {
				visit(e, x.Block().Preds[i], in, d+1)
			}
		case *ssa.Const:
			// no anchor
		case *ssa.Call:
			// a same-package helper computing the anchor: judge each of its returns in its own body
			callee := helperCallee(in, &x.Call)
			if callee == nil {
				probs = append(probs, "anchor is "+truncate(c.term(v), 60))
				return
			}
			if from != nil || x.Block() != nil {
				// conditions under which the helper is called at all
				blk := from
				if blk == nil {
					blk = x.Block()
				}
				for _, ft := range c.fi(in).factsAt(blk) {
					if _, isNot := ft.Cond.(*ssa.UnOp); isNot {
						continue
					}
					probs = append(probs, fmt.Sprintf("the anchor helper is called only when %s is %v", truncate(c.term(ft.Cond), 70), ft.Truth))
				}
			}
			intoHelper(callee, &x.Call, func() {
				for _, r := range c.returnsOf(callee) {
					if rv := resultValues(r); len(rv) > 0 {
						visit(rv[0], r.Block(), callee, d+1)
					}
				}
			})
		case *ssa.Extract:
			call, ok := x.Tuple.(*ssa.Call)
			if !ok || x.Index != 0 || call.Call.StaticCallee() == nil || call.Call.StaticCallee().Name() != "TimeAnchor" {
				probs = append(probs, "anchor is "+truncate(c.term(v), 60)+", not the first result of TimeAnchor()")
				return
			}
			recv := resolveParam(call.Call.Args[0])
			if p, isParam := recv.(*ssa.Parameter); !isParam || p.Parent() != fn {
				probs = append(probs, "TimeAnchor() is not called on the lookup predicate parameter")
			}
			found = true
			if from == nil {
				from = x.Block()
			}
			for _, ft := range c.fi(in).factsAt(from) {
				bo, ok := ft.Cond.(*ssa.BinOp)
				okCond := false
				if ok && (bo.Op == token.EQL || bo.Op == token.NEQ) && (isNilConst(bo.Y) || isNilConst(bo.X)) {
					other := bo.X
					if isNilConst(bo.X) {
						other = bo.Y
					}
					nonNil := (bo.Op == token.NEQ) == ft.Truth
					if resolveParam(other) == recv && nonNil {
						okCond = true
					}
					if ex, isEx := other.(*ssa.Extract); isEx && ex.Tuple == call && ex.Index == 1 && !nonNil {
						okCond = true
					}
				}
				if _, isNot := ft.Cond.(*ssa.UnOp); isNot {
					continue // the negation's operand is listed separately by expandFact
				}
				if !okCond {
					probs = append(probs, fmt.Sprintf("the anchor is taken only when %s is %v", truncate(c.term(ft.Cond), 70), ft.Truth))
				}
			}
		default:
			probs = append(probs, "anchor is "+truncate(c.term(v), 60))
		}
	}
	visit(stored, nil, fn, 0)
	if !found {
		probs = append(probs, "no path stores the result of TimeAnchor()")
	}
	if len(probs) > 0 {
		c.bad(key, storePos, "%s", strings.Join(uniq(probs), "; "))
	} else {
		c.ok(key, storePos, "ota = first result of op.TimeAnchor() under op != nil and err == nil only")
	}
}

// ---- T2b the literal parser converts the text between the quotes as it stands -------------------------------------------

func ruleT2b(c *Ctx) {
	c.Rule("T2b", "the literal parser hands the characters between the opening quote and the closing \"^^type: marker to the conversion (and, for text, to Build) unchanged: the value is a plain sub-slice of the trimmed input starting at index 1, with no trimming, case folding or replacement in between; any rewriting makes two different printed literals parse to one value", 4)
	fn := c.mustFunc("triple/literal", "unboundBuilder.Parse")
	if fn == nil {
		return
	}
	fi := c.fi(fn)
	caseOf := func(b *ssa.BasicBlock) string {
		for _, ft := range fi.factsAt(b) {
			bo, ok := ft.Cond.(*ssa.BinOp)
			if !ok || bo.Op != token.EQL || !ft.Truth {
				continue
			}
			if k, ok := bo.Y.(*ssa.Const); ok && k.Value != nil && k.Value.Kind() == constant.String {
				return constant.StringVal(k.Value)
			}
		}
		return ""
	}
	plain := func(v ssa.Value) string {
		sl, ok := v.(*ssa.Slice)
		if !ok {
			return "it is " + truncate(c.term(v), 70)
		}
		if k, isC := constInt(sl.Low); sl.Low == nil || !isC || k != 1 {
			return "its lower bound is not 1"
		}
		switch x := sl.X.(type) {
		case *ssa.Parameter:
			return ""
		case *ssa.Call:
			if isCallTo(&x.Call, "strings", "TrimSpace") {
				if _, isParam := x.Call.Args[0].(*ssa.Parameter); isParam {
					return ""
				}
			}
		}
		return "it is sliced from " + truncate(c.term(sl.X), 60) + ", not from the trimmed input"
	}
	seen := map[string]bool{}
	allInstrs(fn, func(in ssa.Instruction) {
		call, ok := in.(*ssa.Call)
		if !ok {
			return
		}
		tn := caseOf(in.Block())
		var arg ssa.Value
		if callee := call.Call.StaticCallee(); callee != nil && callee.Pkg != nil && callee.Pkg.Pkg.Path() == "strconv" && strings.HasPrefix(callee.Name(), "Parse") && tn != "blob" && tn != "" {
			arg = call.Call.Args[0]
		} else if tn == "text" && strings.HasSuffix(calleeName(&call.Call), "Build") {
			a := call.Call.Args[len(call.Call.Args)-1]
			if mi, ok := a.(*ssa.MakeInterface); ok {
				a = mi.X
			}
			arg = a
		}
		if arg == nil {
			return
		}
		key := "literal parser passes the " + tn + " value unchanged"
		if seen[key] {
			return
		}
		seen[key] = true
		why := plain(arg)
		c.check(why == "", key, in.Pos(), "raw[1:idx] of the trimmed input", "the value handed to "+calleeName(&call.Call)+" in the "+tn+" case is not the text between the quotes as it stands: "+why)
	})
}

// ---- X7 the scanner advances by what the decoder consumed ---------------------------------------------------------

func ruleX7(c *Ctx) {
	c.Rule("X7", "the lexer's position moves only by the size the UTF-8 decoder reported: every store to the width field is the second result of utf8.DecodeRuneInString on input[pos:] or the constant 0 (end of input); next adds exactly the width to pos and backup subtracts exactly the width; any other step (e.g. the encoded length of the returned rune, which is 3 for an invalid byte) skips input bytes or runs past the end", 3)
	lx := c.mustNamed("bql/lexer", "lexer")
	if lx == nil {
		return
	}
	isField := func(v ssa.Value, name string) bool {
		fa, ok := v.(*ssa.FieldAddr)
		return ok && fieldName(fa.X.Type(), fa.Field) == name
	}
	loadOf := func(v ssa.Value, name string) bool {
		u, ok := v.(*ssa.UnOp)
		return ok && u.Op == token.MUL && isField(u.X, name)
	}
	nw, np := 0, 0
	for _, fn := range c.srcFuncs("bql/lexer") {
		allInstrs(fn, func(in ssa.Instruction) {
			st, ok := in.(*ssa.Store)
			if !ok {
				return
			}
			fa, ok := st.Addr.(*ssa.FieldAddr)
			if !ok || namedOf(derefType(fa.X.Type())) != lx {
				return
			}
			switch fieldName(fa.X.Type(), fa.Field) {
			case "width":
				nw++
				key := fmt.Sprintf("%s sets width #%d", funcName(fn), nw)
				good := false
				if k, isC := constInt(st.Val); isC && k == 0 {
					good = true
				}
				if ex, isEx := st.Val.(*ssa.Extract); isEx && ex.Index == 1 {
					if call, isCall := ex.Tuple.(*ssa.Call); isCall && isCallTo(&call.Call, "unicode/utf8", "DecodeRuneInString") {
						if sl, isSl := call.Call.Args[0].(*ssa.Slice); isSl && loadOf(sl.Low, "pos") && sl.High == nil && loadOf(sl.X, "input") {
							good = true
						}
					}
				}
				c.check(good, key, st.Pos(), "0 or the decoder's size for input[pos:]", "width is set to "+truncate(c.term(st.Val), 70)+", not to the size utf8.DecodeRuneInString reported for input[pos:]: after an invalid byte the lexer skips or overruns input")
			case "pos":
				if fnName(fn) != "next" && fnName(fn) != "backup" {
					return
				}
				np++
				key := funcName(fn) + " moves pos by width"
				bo, isBo := st.Val.(*ssa.BinOp)
				wantOp := token.ADD
				if fnName(fn) == "backup" {
					wantOp = token.SUB
				}
				good := isBo && bo.Op == wantOp && loadOf(bo.X, "pos") && loadOf(bo.Y, "width")
				c.check(good, key, st.Pos(), "pos "+wantOp.String()+"= width", "pos is set to "+truncate(c.term(st.Val), 70)+" rather than pos "+wantOp.String()+" width")
			}
		})
	}
	if nw < 2 || np < 2 {
		c.undecided("width/pos stores in the lexer", token.NoPos, "found %d width stores and %d pos moves in next/backup; 2 and 2 confirmed by reading", nw, np)
	}
}

// ---- X8 the predicate/literal dispatch does not take the opening quote for a closing one ------------------------------

func ruleX8(c *Ctx) {
	c.Rule("X8", "lexPredicateOrLiteral chooses the predicate lexer only when the closing \"@[ marker was found after the opening quote: the text searched starts at the opening quote, so a match at index 0 is the opening quote itself followed by @[ (a literal whose text begins with @[), and the branch to lexPredicate must be dominated by index > 0", 1)
	fn := c.mustFunc("bql/lexer", "lexPredicateOrLiteral")
	if fn == nil {
		return
	}
	fi := c.fi(fn)
	key := "lexPredicateOrLiteral requires the anchor marker after the opening quote"
	isPredFn := func(v ssa.Value) bool {
		for {
			if ct, ok := v.(*ssa.ChangeType); ok {
				v = ct.X
				continue
			}
			break
		}
		f, ok := v.(*ssa.Function)
		return ok && fnName(f) == "lexPredicate"
	}
	guarded := func(b *ssa.BasicBlock) bool {
		for _, ft := range fi.factsAt(b) {
			bo, ok := ft.Cond.(*ssa.BinOp)
			if !ok {
				continue
			}
			call, ok := bo.X.(*ssa.Call)
			if !ok || !isCallTo(&call.Call, "strings", "Index") {
				continue
			}
			if k, isK := call.Call.Args[1].(*ssa.Const); !isK || k.Value == nil || k.Value.Kind() != constant.String || constant.StringVal(k.Value) != "\"@[" {
				continue
			}
			k, isC := constInt(bo.Y)
			if !isC {
				continue
			}
			switch {
			case bo.Op == token.GTR && k >= 0 && ft.Truth, bo.Op == token.GEQ && k >= 1 && ft.Truth,
				bo.Op == token.LEQ && k >= 0 && !ft.Truth, bo.Op == token.LSS && k >= 1 && !ft.Truth:
				return true
			}
		}
		return false
	}
	found, bad := 0, ""
	for _, r := range c.returnsOf(fn) {
		for _, v := range resultValues(r) {
			if isPredFn(v) {
				found++
				if !guarded(r.Block()) {
					bad = c.pos(r.Pos())
				}
			}
			if phi, ok := v.(*ssa.Phi); ok {
				for i, e := range phi.Edges {
					if isPredFn(e) {
						found++
						if !guarded(phi.Block().Preds[i]) {
							bad = c.pos(r.Pos())
						}
					}
				}
			}
		}
	}
	if found == 0 {
		c.undecided(key, fn.Pos(), "no return of lexPredicate found in lexPredicateOrLiteral")
		return
	}
	c.check(bad == "", key, fn.Pos(), "the return of lexPredicate is dominated by strings.Index(text, `\"@[`) > 0", "lexPredicate is returned at "+bad+" without a dominating test that the \"@[ marker lies after the opening quote (index > 0): a literal whose text begins with @[ is lexed as a malformed predicate")
}

// ---- P9d the bulk writer keeps its first error ---------------------------------------------------------------------------

func ruleP9d(c *Ctx) {
	c.Rule("P9d", "a goroutine that reports one error for several writes keeps the first one: when the error value it sends on its result channel is assembled from two or more calls (or from a call in a loop), each of those calls is dominated by a test that the error so far is nil, so a later successful write can never overwrite an earlier failure", 1)
	n := 0
	for _, fn := range c.srcFuncs("bql/planner") {
		if fn.Parent() == nil {
			continue
		}
		fi := c.fi(fn)
		allInstrs(fn, func(in ssa.Instruction) {
			snd, ok := in.(*ssa.Send)
			if !ok || !types.Identical(snd.X.Type(), types.Universe.Lookup("error").Type()) {
				return
			}
			web := map[ssa.Value]bool{}
			var calls []*ssa.Call
			var walk func(v ssa.Value)
			walk = func(v ssa.Value) {
				if web[v] {
					return
				}
				web[v] = true
				switch x := v.(type) {
				case *ssa.Phi:
					for _, e := range x.Edges {
						walk(e)
					}
				case *ssa.Call:
					calls = append(calls, x)
				}
			}
			walk(snd.X)
			inLoopCall := false
			for _, cl := range calls {
				if fi.innermostLoop(cl.Block().Index) != nil {
					inLoopCall = true
				}
			}
			if len(calls) < 2 && !inLoopCall {
				return
			}
			n++
			key := funcName(fn) + " keeps its first error"
			bad := ""
			for _, cl := range calls {
				guard := false
				for _, ft := range fi.factsAt(cl.Block()) {
					bo, ok := ft.Cond.(*ssa.BinOp)
					if !ok || (bo.Op != token.EQL && bo.Op != token.NEQ) || !isNilConst(bo.Y) || !web[bo.X] {
						continue
					}
					if (bo.Op == token.EQL) == ft.Truth {
						guard = true
					}
				}
				if !guard {
					bad = c.pos(cl.Pos())
				}
			}
			c.check(bad == "", key, snd.Pos(), fmt.Sprintf("%d calls feed the reported error; each runs only while the error so far is nil", len(calls)),
				"the call at "+bad+" assigns the reported error without a dominating test that the error so far is nil: after a failed batch a later successful one overwrites the failure and the statement reports success with a batch missing")
		})
	}
	if n < 1 {
		c.undecided("goroutines reporting an accumulated error", token.NoPos, "none found; the CONSTRUCT/DECONSTRUCT bulk writer was confirmed by reading")
	}
}

// ---- A2 the identity of a grouped or counted value is the whole cell -----------------------------------------------------

func ruleA2(c *Ctx) {
	c.Rule("A2", "the key under which rows are grouped (the id closure of Table.Reduce) and values are counted as distinct (countDistinctAcc.Accumulate) is computed from the whole cell, never from a method of one of the cell's components (cell.L.UUID(), cell.L.ToComparableString(), ...): a component's rendering drops the component kind and may identify values the cell's own printed form keeps apart", 2)
	cellT := c.mustNamed("bql/table", "Cell")
	if cellT == nil {
		return
	}
	fromCellField := func(v ssa.Value) bool {
		for d := 0; d < 6; d++ {
			switch x := v.(type) {
			case *ssa.UnOp:
				if x.Op != token.MUL {
					return false
				}
				v = x.X
			case *ssa.FieldAddr:
				return namedOf(derefType(x.X.Type())) == cellT
			case *ssa.Field:
				return namedOf(x.X.Type()) == cellT
			case *ssa.Phi:
				for _, e := range x.Edges {
					if _, isC := e.(*ssa.Const); !isC {
						v = e
					}
				}
				if v == ssa.Value(x) {
					return false
				}
			default:
				return false
			}
		}
		return false
	}
	var fns []*ssa.Function
	if red := c.mustFunc("bql/table", "Table.Reduce"); red != nil {
		isKeyFn := func(f *ssa.Function) bool {
			return f.Signature.Results().Len() == 1 && types.Identical(f.Signature.Results().At(0).Type(), types.Typ[types.String])
		}
		for _, a := range red.AnonFuncs {
			if isKeyFn(a) {
				fns = append(fns, a)
			}
		}
		// the key function may be a named same-package function taking the row
		allInstrs(red, func(in ssa.Instruction) {
			if cc := callCommon(in); cc != nil {
				if callee := helperCallee(red, cc); callee != nil && callee.Parent() == nil && isKeyFn(callee) {
					takesRow := false
					for _, p := range callee.Params {
						if isNamed(p.Type(), modPath+"/bql/table", "Row") {
							takesRow = true
						}
					}
					if takesRow {
						fns = append(fns, callee)
					}
				}
			}
		})
	}
	if acc := c.mustFunc("bql/table", "countDistinctAcc.Accumulate"); acc != nil {
		fns = append(fns, acc)
	}
	for _, fn := range fns {
		key := funcName(fn) + " keys by the whole cell"
		bad := ""
		allInstrs(fn, func(in ssa.Instruction) {
			cc := callCommon(in)
			if cc == nil {
				return
			}
			var recv ssa.Value
			if cc.IsInvoke() {
				recv = cc.Value
			} else if cc.StaticCallee() != nil && cc.StaticCallee().Signature.Recv() != nil && len(cc.Args) > 0 {
				recv = cc.Args[0]
			}
			if recv != nil && fromCellField(recv) {
				bad = calleeName(cc) + " at " + c.pos(in.Pos())
			}
		})
		c.check(bad == "", key, fn.Pos(), "no call on a component of a cell", "the key is computed with "+bad+", a method of one component of the cell, not from the cell's own printed form: values of different kinds or values that component identifies (equal numbers of different literal types, colliding UUIDs) fall into one group or are counted once")
	}
}

// ---- E2 NOT never evaluates to its operand ------------------------------------------------------------------------------------

func ruleE2(c *Ctx) {
	c.Rule("E2", "NewUnaryBooleanExpression never returns its operand itself as the result: NOT x and x differ on every row on which x evaluates, so handing back the operand (or the operand re-typed) is never a correct simplification", 1)
	fn := c.mustFunc("bql/semantic", "NewUnaryBooleanExpression")
	if fn == nil {
		return
	}
	key := "NewUnaryBooleanExpression builds a new node"
	var operand *ssa.Parameter
	for _, p := range fn.Params {
		if _, isI := p.Type().Underlying().(*types.Interface); isI {
			operand = p
		}
	}
	if operand == nil {
		c.undecided(key, fn.Pos(), "no evaluator parameter found")
		return
	}
	var isOperand func(v ssa.Value, d int) bool
	isOperand = func(v ssa.Value, d int) bool {
		if d > 6 {
			return false
		}
		switch x := v.(type) {
		case *ssa.Parameter:
			return x == operand
		case *ssa.MakeInterface:
			return isOperand(x.X, d+1)
		case *ssa.ChangeInterface:
			return isOperand(x.X, d+1)
		case *ssa.TypeAssert:
			return isOperand(x.X, d+1)
		case *ssa.Extract:
			return isOperand(x.Tuple, d+1)
		case *ssa.Phi:
			for _, e := range x.Edges {
				if isOperand(e, d+1) {
					return true
				}
			}
		}
		return false
	}
	bad := ""
	for _, r := range c.returnsOf(fn) {
		res := resultValues(r)
		if len(res) > 0 && isOperand(res[0], 0) {
			bad = c.pos(r.Pos())
		}
	}
	c.check(bad == "", key, fn.Pos(), "no return hands back the operand", "the return at "+bad+" hands back the operand itself as the value of NOT operand")
}

// ---- S13 every lock taken is given back exactly once on every path ------------------------------------------------------

type balState struct {
	mode     uint8 // lkNone, lkR, lkW
	deferred uint8 // 0 none, 1 deferred RUnlock, 2 deferred Unlock
	bad      uint8 // 0 ok, 1 lock while held, 2 unlock while not held, 3 mismatched unlock
}

func ruleS13(c *Ctx) {
	c.Rule("S13", "every acquisition of an owner's lock (store, graph, memoizer, table) is matched by exactly one release of the same kind on every path to every return of the function or goroutine body that took it: no return with the lock held and no deferred release, no second Lock/RLock while held (sync locks are not re-entrant), no Unlock of a lock not held or held in the other mode (a fatal runtime error), no explicit release followed by a deferred one", 30)
	n := 0
	for _, o := range c.lockOwners() {
		lock := o.lock
		for _, top := range c.srcFuncs("storage/...", "bql/table", "bql/planner") {
			fn := top
			// one obligation per object whose lock the function touches (two tables locked together are two objects)
			bases := map[string]bool{}
			baseOf := func(cc *ssa.CallCommon) string {
				if lockOp(cc, lock) == "" {
					return ""
				}
				return c.term(cc.Args[0].(*ssa.FieldAddr).X)
			}
			allInstrs(fn, func(in ssa.Instruction) {
				if cc := callCommon(in); cc != nil {
					if b := baseOf(cc); b != "" {
						bases[b] = true
					}
				}
			})
			for _, base := range keys(bases) {
				base := base
				lockOp := func(cc *ssa.CallCommon, lock *types.Var) string {
					if baseOf(cc) != base {
						return ""
					}
					return lockOp(cc, lock)
				}
				n++
				key := fmt.Sprintf("%s balances %s.%s", funcName(fn), o.named.Obj().Name(), lock.Name())
				if len(bases) > 1 {
					key += " of " + truncate(base, 40)
				}
				var firstBad ssa.Instruction
				transfer := func(s balState, in ssa.Instruction) balState {
					if s.bad != 0 {
						return s
					}
					switch x := in.(type) {
					case *ssa.Call:
						switch lockOp(&x.Call, lock) {
						case "Lock", "RLock":
							if s.mode != lkNone {
								s.bad = 1
								if firstBad == nil {
									firstBad = in
								}
								return s
							}
							if lockOp(&x.Call, lock) == "Lock" {
								s.mode = lkW
							} else {
								s.mode = lkR
							}
						case "Unlock":
							if s.mode == lkNone {
								s.bad = 2
							} else if s.mode != lkW {
								s.bad = 3
							}
							if s.bad != 0 && firstBad == nil {
								firstBad = in
							}
							s.mode = lkNone
						case "RUnlock":
							if s.mode == lkNone {
								s.bad = 2
							} else if s.mode != lkR {
								s.bad = 3
							}
							if s.bad != 0 && firstBad == nil {
								firstBad = in
							}
							s.mode = lkNone
						}
					case *ssa.Defer:
						switch lockOp(&x.Call, lock) {
						case "Unlock":
							s.deferred = 2
						case "RUnlock":
							s.deferred = 1
						}
					}
					return s
				}
				atRet, _ := flow(c, fn, balState{}, transfer, nil)
				var rets []*ssa.Return
				for r := range atRet {
					rets = append(rets, r)
				}
				sort.Slice(rets, func(i, j int) bool { return rets[i].Pos() < rets[j].Pos() })
				why := ""
				for _, r := range rets {
					for s := range atRet[r] {
						switch {
						case s.bad == 1:
							why = "the lock is taken again while already held (at " + c.pos(firstBad.Pos()) + "): the goroutine blocks on itself"
						case s.bad == 2:
							why = "a release at " + c.pos(firstBad.Pos()) + " runs on a path where the lock is not held: fatal 'unlock of unlocked mutex'"
						case s.bad == 3:
							why = "the release at " + c.pos(firstBad.Pos()) + " is of the other kind than the acquisition (Unlock after RLock or RUnlock after Lock)"
						case s.mode != lkNone && s.deferred == 0:
							why = "the return at " + c.pos(r.Pos()) + " can be reached with the lock still held (mode " + modeName(s.mode) + ") and no deferred release: every later user of this object blocks forever"
						case s.mode == lkNone && s.deferred != 0:
							why = "the return at " + c.pos(r.Pos()) + " can be reached after an explicit release although a release is also deferred: the deferred one unlocks an unlocked mutex"
						case s.mode == lkW && s.deferred == 1, s.mode == lkR && s.deferred == 2:
							why = "the deferred release is of the other kind than the lock held at the return at " + c.pos(r.Pos())
						}
					}
					if why != "" {
						break
					}
				}
				c.check(why == "", key, fn.Pos(), "balanced on every path to every return", why)
			}
		}
	}
	if n < 30 {
		c.undecided("functions using an owner's lock", token.NoPos, "only %d found; 30+ confirmed on the pinned tree", n)
	}
	// any other mutex (a local one shared with goroutine closures, a field of a type outside the guard table): the same
	// balance, identified by the term of the mutex value
	ownerLocks := map[*types.Var]bool{}
	for _, o := range c.lockOwners() {
		ownerLocks[o.lock] = true
	}
	anyLockOp := func(cc *ssa.CallCommon) (string, string) {
		f := cc.StaticCallee()
		if f == nil || f.Signature.Recv() == nil || len(cc.Args) == 0 {
			return "", ""
		}
		if !isNamed(f.Signature.Recv().Type(), "sync", "RWMutex") && !isNamed(f.Signature.Recv().Type(), "sync", "Mutex") {
			return "", ""
		}
		if fa, ok := cc.Args[0].(*ssa.FieldAddr); ok && ownerLocks[fieldVar(fa.X.Type(), fa.Field)] {
			return "", "" // judged above
		}
		switch f.Name() {
		case "Lock", "RLock", "Unlock", "RUnlock":
			return f.Name(), c.term(cc.Args[0])
		}
		return "", ""
	}
	for _, fn := range c.srcFuncs("triple/...", "io", "storage/...", "bql/...") {
		bases := map[string]bool{}
		allInstrs(fn, func(in ssa.Instruction) {
			if cc := callCommon(in); cc != nil {
				if op, b := anyLockOp(cc); op != "" {
					bases[b] = true
				}
			}
		})
		for _, base := range keys(bases) {
			base := base
			type st struct {
				held, deferred bool
			}
			tr := func(s st, in ssa.Instruction) st {
				cc := callCommon(in)
				if cc == nil {
					return s
				}
				op, b := anyLockOp(cc)
				if b != base {
					return s
				}
				if _, isDefer := in.(*ssa.Defer); isDefer {
					if op == "Unlock" || op == "RUnlock" {
						s.deferred = true
					}
					return s
				}
				switch op {
				case "Lock", "RLock":
					s.held = true
				case "Unlock", "RUnlock":
					s.held = false
				}
				return s
			}
			atRet, _ := flow(c, fn, st{}, tr, nil)
			bad := ""
			for r, ss := range atRet {
				for s := range ss {
					if s.held && !s.deferred {
						bad = c.pos(r.Pos())
					}
				}
			}
			c.check(bad == "", fmt.Sprintf("%s releases mutex %s on every path", funcName(fn), truncate(base, 40)), fn.Pos(), "every return is reached with the mutex released or a release deferred", "the return at "+bad+" can be reached with the mutex "+truncate(base, 40)+" still locked and no deferred release: the next goroutine that wants it blocks forever")
		}
	}
}

// ---- S3b fields outside the guard table are immutable after construction ------------------------------------------------

func ruleS3b(c *Ctx) {
	c.Rule("S3b", "the guard table of S3 is complete: a field of a lock-owning type (store, graph, memoizer, table) that is not in the table is never written after the object was constructed — every store to such a field is to an object allocated in the same function; a field written later is shared mutable state and must be added to the table (with its lock) so that S3 judges its accesses", 1)
	n := 0
	for _, o := range c.lockOwners() {
		st := o.named.Underlying().(*types.Struct)
		for i := 0; i < st.NumFields(); i++ {
			f := st.Field(i)
			if f == o.lock || o.guarded[f] {
				continue
			}
			n++
			key := o.named.Obj().Name() + "." + f.Name() + " is set only at construction"
			bad := ""
			for _, fn := range c.srcFuncs() {
				allInstrs(fn, func(in ssa.Instruction) {
					stI, ok := in.(*ssa.Store)
					if !ok {
						return
					}
					fa, ok := stI.Addr.(*ssa.FieldAddr)
					if !ok || fieldVar(fa.X.Type(), fa.Field) != f {
						return
					}
					if isFreshBase(fa) {
						return
					}
					bad = funcName(fn) + " at " + c.pos(in.Pos())
				})
			}
			c.check(bad == "", key, f.Pos(), "no store outside the constructing function", "field "+f.Name()+" of "+o.named.Obj().Name()+" is written by "+bad+" on an object that already exists, but it is not in the guard table: concurrent users of the object race on it")
		}
	}
	if n == 0 {
		c.trivial("unguarded fields of lock owners", token.NoPos, "every field of every lock owner is in the guard table")
	}
}

// ---- S3c no package-level state is written after initialisation ------------------------------------------------------------

// s3cReviewed: package-level variables written outside init, each read and found safe.
var s3cReviewed = map[string]string{
	"tracer.tracerVerbosity": "diagnostic setting: written only by SetVerbosity (the REPL's verbosity command), read by Trace to decide whether a trace line is emitted; no result table, store content or parse depends on it",
}

func ruleS3c(c *Ctx, rels ...string) {
	c.Rule("S3c", "no engine package keeps mutable package-level state: outside package initialisation no function stores to a package-level variable, updates or deletes from a package-level map, or stores through a package-level slice/pointer (sync.Pool values excepted); such state is shared by every store, graph, parser and statement of the process without any lock", 0)
	n := 0
	for _, fn := range c.srcFuncs(rels...) {
		if fn.Name() == "init" || strings.HasPrefix(fn.Name(), "init#") || (fn.Parent() != nil && fn.Parent().Name() == "init") {
			continue
		}
		globalOf := func(v ssa.Value) *ssa.Global {
			for d := 0; d < 6 && v != nil; d++ {
				switch x := v.(type) {
				case *ssa.Global:
					return x
				case *ssa.UnOp:
					v = x.X
				case *ssa.FieldAddr:
					v = x.X
				case *ssa.IndexAddr:
					v = x.X
				default:
					return nil
				}
			}
			return nil
		}
		allInstrs(fn, func(in ssa.Instruction) {
			var g *ssa.Global
			switch x := in.(type) {
			case *ssa.Store:
				g = globalOf(x.Addr)
			case *ssa.MapUpdate:
				g = globalOf(x.Map)
			case *ssa.Call:
				if isBuiltinCall(&x.Call, "delete") {
					g = globalOf(x.Call.Args[0])
				}
				// a process-wide sync.Map used as a cache
				if f := x.Call.StaticCallee(); f != nil && f.Signature.Recv() != nil && isNamed(f.Signature.Recv().Type(), "sync", "Map") && len(x.Call.Args) > 0 {
					switch f.Name() {
					case "Store", "LoadOrStore", "LoadAndDelete", "Delete", "Swap", "CompareAndSwap", "CompareAndDelete", "Clear":
						g = globalOf(x.Call.Args[0])
					}
				}
			}
			if g == nil || g.Pkg == nil || !strings.HasPrefix(g.Pkg.Pkg.Path(), modPath) {
				return
			}
			if isNamed(derefType(g.Type()), "sync", "Pool") {
				return
			}
			n++
			key := fmt.Sprintf("%s writes package variable %s.%s", funcName(fn), g.Pkg.Pkg.Name(), g.Name())
			if why, ok := s3cReviewed[g.Pkg.Pkg.Name()+"."+g.Name()]; ok {
				c.ok(key, in.Pos(), "reviewed: %s", why)
				return
			}
			c.bad(key, in.Pos(), "%s modifies the package-level variable %s.%s at run time: the value is shared, without a lock, by every goroutine, store and parser of the process, so results depend on what ran before and concurrent use races", funcName(fn), g.Pkg.Pkg.Name(), g.Name())
		})
	}
	if n == 0 {
		c.trivial("writes to package-level variables", token.NoPos, "none outside initialisation in %v", rels)
	}
}

// ---- FS1 data never becomes a format string ---------------------------------------------------------------------------------

func ruleFS1(c *Ctx, rels ...string) {
	c.Rule("FS1", "no value is interpreted as a format: the format argument of every fmt.Sprintf/Fprintf/Printf/Errorf/Sscanf-style call in the engine is built from constants only (a constant, or constants joined by +); a format that contains a node, predicate, literal or any other run-time text turns every % in that text into a verb, so the printed form no longer parses back", 0)
	fmtIdx := map[string]int{"Sprintf": 0, "Errorf": 0, "Printf": 0, "Fprintf": 1, "Sscanf": 1, "Fscanf": 1, "Appendf": 1}
	n := 0
	var constOnly func(v ssa.Value, d int) bool
	constOnly = func(v ssa.Value, d int) bool {
		if d > 6 {
			return false
		}
		switch x := resolveParam(v).(type) {
		case *ssa.Const:
			return true
		case *ssa.BinOp:
			return x.Op == token.ADD && constOnly(x.X, d+1) && constOnly(x.Y, d+1)
		case *ssa.Phi:
			for _, e := range x.Edges {
				if !constOnly(e, d+1) {
					return false
				}
			}
			return true
		}
		return false
	}
	for _, fn := range c.srcFuncs(rels...) {
		allInstrs(fn, func(in ssa.Instruction) {
			cc := callCommon(in)
			if cc == nil || cc.StaticCallee() == nil || cc.StaticCallee().Pkg == nil || cc.StaticCallee().Pkg.Pkg.Path() != "fmt" {
				return
			}
			idx, ok := fmtIdx[cc.StaticCallee().Name()]
			if !ok || idx >= len(cc.Args) {
				return
			}
			n++
			if constOnly(cc.Args[idx], 0) {
				return
			}
			// a parameter of an unexported helper: judged at its call sites
			if p, isParam := cc.Args[idx].(*ssa.Parameter); isParam && !token.IsExported(fn.Name()) && fn.Parent() == nil {
				okAll := len(c.callSites().sites[fn]) > 0 && !c.callSites().escapes[fn]
				pi := -1
				for i, q := range fn.Params {
					if q == p {
						pi = i
					}
				}
				for _, site := range c.callSites().sites[fn] {
					if sc := callCommon(site); sc == nil || pi < 0 || pi >= len(sc.Args) || !constOnly(sc.Args[pi], 0) {
						okAll = false
					}
				}
				if okAll {
					return
				}
			}
			c.bad(fmt.Sprintf("%s format of fmt.%s", funcName(fn), cc.StaticCallee().Name()), in.Pos(), "the format string of fmt.%s at %s is %s, which contains run-time text: a %% in that text is read as a verb (\"%%!\"(MISSING)…), so what is printed is not what the parser reads back", cc.StaticCallee().Name(), c.pos(in.Pos()), truncate(c.term(cc.Args[idx]), 80))
		})
	}
	if n == 0 {
		c.trivial("format strings", token.NoPos, "no fmt formatting call in %v", rels)
	} else {
		c.ok("format strings are constants", token.NoPos, "%d formatting calls, every format built from constants only", n)
	}
}

// ---- D1 no deferred call inside a loop --------------------------------------------------------------------------------------

func ruleD1(c *Ctx, rels ...string) {
	c.Rule("D1", "clean-up that belongs to one iteration happens in that iteration: no defer statement lies inside a loop (a deferred call runs when the function returns, so a reset, unlock, close or drain deferred in a loop body is postponed past all later iterations — the state it should have restored is seen by them)", 0)
	n := 0
	for _, fn := range c.srcFuncs(rels...) {
		fi := c.fi(fn)
		allInstrs(fn, func(in ssa.Instruction) {
			d, ok := in.(*ssa.Defer)
			if !ok {
				return
			}
			n++
			if fi.innermostLoop(in.Block().Index) == nil {
				return
			}
			c.bad(fmt.Sprintf("%s defers %s inside a loop", funcName(fn), calleeName(&d.Call)), in.Pos(), "the call to %s at %s is deferred inside a loop: it runs only when %s returns, not at the end of the iteration, so every later iteration (and everything after the loop) still sees the state it was meant to restore", calleeName(&d.Call), c.pos(in.Pos()), funcName(fn))
		})
	}
	c.ok("defers outside loops", token.NoPos, "%d defer statements in %v, none inside a loop", n, rels)
}
