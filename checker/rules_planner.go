package main

import (
	"fmt"
	"go/constant"
	"go/token"
	"go/types"
	"sort"
	"strings"

	"golang.org/x/tools/go/ssa"
)

// ---- P1 row binding consistency ---------------------------------------------------------------

// cellSources describes what a *table.Cell value was built from: for a composite literal the terms stored into its fields,
// for a call result the call term.
func (c *Ctx) cellSources(v ssa.Value, depth int) []string {
	if depth > 4 {
		return nil
	}
	switch x := v.(type) {
	case *ssa.Phi:
		var out []string
		for _, e := range x.Edges {
			out = append(out, c.cellSources(e, depth+1)...)
		}
		return out
	case *ssa.Alloc:
		var out []string
		empty := true
		for _, ref := range *x.Referrers() {
			fa, ok := ref.(*ssa.FieldAddr)
			if !ok {
				continue
			}
			for _, r2 := range *fa.Referrers() {
				if st, ok := r2.(*ssa.Store); ok && st.Addr == fa {
					empty = false
					out = append(out, fieldName(fa.X.Type(), fa.Field)+"="+c.term(st.Val))
				}
			}
		}
		if empty {
			out = append(out, "empty-cell")
		}
		return out
	case *ssa.Extract:
		out := []string{c.term(x)}
		// a same-package helper building the cell: what it returns, with its parameters read as the arguments
		if call, ok := x.Tuple.(*ssa.Call); ok && x.Index == 0 {
			if callee := helperCallee(x.Parent(), &call.Call); callee != nil {
				intoHelper(callee, &call.Call, func() {
					for _, r := range c.returnsOf(callee) {
						if rv := resultValues(r); len(rv) > 0 && !isNilConst(rv[0]) {
							out = append(out, c.cellSources(rv[0], depth+1)...)
						}
					}
				})
			}
		}
		return out
	}
	return []string{c.term(v)}
}

func ruleP1(c *Ctx) {
	c.Rule("P1", "inside one clause a binding has one value: in tripleToRow every store r[cls.F] = cell is followed on every path by validBinding(cls.F, cell) whose false edge abandons the triple; and each extraction is taken from the matching part of the triple (S* from the subject, P* from the predicate, O* from the object; TYPE/ID/AT from that part's type, id, anchor)", 30)
	fn := c.mustFunc("bql/planner", "tripleToRow")
	if fn == nil {
		return
	}
	fi := c.fi(fn)
	// the validBinding closure: a MakeClosure of signature func(string, *Cell) bool
	var vb *ssa.MakeClosure
	allInstrs(fn, func(in ssa.Instruction) {
		if mc, ok := in.(*ssa.MakeClosure); ok {
			sig := mc.Fn.(*ssa.Function).Signature
			if sig.Params().Len() == 2 && sig.Results().Len() == 1 && types.Identical(sig.Results().At(0).Type(), types.Typ[types.Bool]) {
				vb = mc
			}
		}
	})
	if vb == nil {
		c.undecided("tripleToRow validBinding", fn.Pos(), "the binding-consistency closure was not found")
		return
	}
	// the closure compares with the earlier value of the same key and remembers the new one
	{
		vf := vb.Fn.(*ssa.Function)
		// a bound method value (checker.valid): the synthetic wrapper only forwards to the method
		if vf.Synthetic != "" {
			allInstrs(vf, func(in ssa.Instruction) {
				if cc := callCommon(in); cc != nil && cc.StaticCallee() != nil && len(cc.StaticCallee().Blocks) > 0 {
					vf = cc.StaticCallee()
				}
			})
		}
		var keyP, valP *ssa.Parameter
		for _, p := range vf.Params {
			if types.Identical(p.Type(), types.Typ[types.String]) {
				keyP = p
			} else if _, isPtr := p.Type().Underlying().(*types.Pointer); isPtr {
				valP = p
			}
		}
		if keyP == nil || valP == nil {
			c.undecided("tripleToRow validBinding", fn.Pos(), "the binding-consistency function has no (string, *Cell) parameters")
			return
		}
		hasLookup, hasUpdate, hasCompare := false, false, false
		allInstrs(vf, func(in ssa.Instruction) {
			switch x := in.(type) {
			case *ssa.Lookup:
				if x.CommaOk && isValueOfParam(x.Index, keyP) {
					hasLookup = true
				}
			case *ssa.MapUpdate:
				if isValueOfParam(x.Key, keyP) && isValueOfParam(x.Value, valP) {
					hasUpdate = true
				}
			case *ssa.Call:
				if isCallTo(&x.Call, "reflect", "DeepEqual") {
					hasCompare = true
				}
			}
		})
		okRet := true
		vfi := c.fi(vf)
		type trueAt struct {
			blk  *ssa.BasicBlock
			edge []Fact // the branch taken out of blk, for a phi edge
		}
		var trues []trueAt
		for _, r := range c.returnsOf(vf) {
			switch x := r.Results[0].(type) {
			case *ssa.Const:
				if x.Value != nil && constant.BoolVal(x.Value) {
					trues = append(trues, trueAt{r.Block(), nil})
				}
			case *ssa.Phi:
				// return !ok || reflect.DeepEqual(c, v): the constant-true edges of the short-circuit
				for i, e := range x.Edges {
					if k, ok := e.(*ssa.Const); ok && k.Value != nil && k.Value.Kind() == constant.Bool && constant.BoolVal(k.Value) {
						pb := x.Block().Preds[i]
						var ef []Fact
						if iff, ok := pb.Instrs[len(pb.Instrs)-1].(*ssa.If); ok && pb.Succs[0] != pb.Succs[1] {
							ef = expandFact(Fact{iff.Cond, pb.Succs[0] == x.Block()})
						}
						trues = append(trues, trueAt{pb, ef})
					}
				}
			}
		}
		for _, tr := range trues {
			{
				// true is returned only when the key was new or the values are deeply equal
				okFact := false
				for _, ft := range append(append([]Fact{}, tr.edge...), vfi.factsAt(tr.blk)...) {
					if lk, isLk := commaOkOn(ft.Cond); isLk && !ft.Truth && lk != nil {
						okFact = true
					}
					if call, isCall := ft.Cond.(*ssa.Call); isCall && ft.Truth && isCallTo(&call.Call, "reflect", "DeepEqual") {
						okFact = true
					}
				}
				if !okFact {
					okRet = false
				}
			}
		}
		c.check(hasLookup && hasUpdate && hasCompare && okRet, "tripleToRow validBinding compares with the earlier value", vf.Pos(),
			"looks the key up, remembers the new cell, returns true only for a new key or deeply equal cells",
			"the consistency closure no longer compares a repeated binding's value with the earlier one (or returns true regardless)")
	}
	clsParam := fn.Params[1]
	n := 0
	allInstrs(fn, func(in ssa.Instruction) {
		mu, ok := in.(*ssa.MapUpdate)
		if !ok {
			return
		}
		if _, isRow := mu.Map.(*ssa.MakeMap); !isRow {
			return
		}
		if !isNamed(mu.Map.Type(), modPath+"/bql/table", "Row") {
			return
		}
		kt := c.term(mu.Key)
		if !strings.HasPrefix(kt, "param:"+clsParam.Name()+".") {
			return
		}
		field := strings.TrimPrefix(kt, "param:"+clsParam.Name()+".")
		n++
		// --- consistency check follows
		var chk *ssa.Call
		allInstrs(fn, func(i2 ssa.Instruction) {
			call, ok := i2.(*ssa.Call)
			if !ok || call.Call.Value != ssa.Value(vb) || len(call.Call.Args) != 2 {
				return
			}
			if c.term(call.Call.Args[0]) == kt && call.Call.Args[1] == mu.Value && fi.instrPostDominates(call, mu) {
				chk = call
			}
		})
		key := "tripleToRow binding " + field + " checked"
		if chk == nil {
			c.bad(key, in.Pos(), "the row store for %s at %s is not followed on every path by validBinding(cls.%s, <the stored cell>): a binding used twice in the clause can silently take the second value, so triples that disagree on it are reported as solutions", field, c.pos(in.Pos()), field)
		} else {
			// false edge abandons the triple
			okAbandon := false
			for _, ref := range *chk.Referrers() {
				iff, ok := ref.(*ssa.If)
				if !ok {
					continue
				}
				fb := iff.Block().Succs[1]
				if r, ok := fb.Instrs[len(fb.Instrs)-1].(*ssa.Return); ok {
					rv := resultValues(r)
					if isNilConst(rv[0]) && isNilConst(rv[1]) {
						okAbandon = true
					}
				}
			}
			c.check(okAbandon, key, in.Pos(), "validBinding follows on every path and its false edge returns (nil, nil)", "validBinding's false edge does not abandon the triple with (nil, nil)")
		}
		// --- extraction source
		src := strings.Join(c.cellSources(mu.Value, 0), " ; ")
		key2 := "tripleToRow binding " + field + " source"
		want := map[byte]string{'S': ".Subject(", 'P': ".Predicate(", 'O': ".Object("}[field[0]]
		var wrong []string
		for _, other := range []string{".Subject(", ".Predicate(", ".Object("} {
			if other == want {
				continue
			}
			// an object's own Predicate() accessor is legitimate for O* fields: (*triple.Object).Predicate(
			if strings.Contains(strings.ReplaceAll(strings.ReplaceAll(src, "(*triple.Object).Predicate(", ""), "(*triple.Object).Node(", ""), "(*triple.Triple)"+other) {
				wrong = append(wrong, other)
			}
		}
		okSrc := strings.Contains(src, "(*triple.Triple)"+want) && len(wrong) == 0
		switch {
		case strings.HasSuffix(field, "TypeAlias"):
			okSrc = okSrc && strings.Contains(src, ".Type(")
		case strings.HasSuffix(field, "IDAlias"):
			okSrc = okSrc && strings.Contains(src, ".ID(")
		case strings.Contains(field, "Anchor"):
			okSrc = okSrc && strings.Contains(src, ".TimeAnchor(")
		default:
			okSrc = okSrc && !strings.Contains(src, ".ID(") && !strings.Contains(src, ".TimeAnchor(")
		}
		c.check(okSrc, key2, in.Pos(), "cell built from "+truncate(src, 160), fmt.Sprintf("the cell stored under cls.%s is built from %s, which is not the %s part of the triple that the field name denotes", field, truncate(src, 200), want))
	})
	if n < 15 {
		c.undecided("tripleToRow row stores", fn.Pos(), "only %d row stores keyed by a clause field found", n)
	}
}

func truncate(s string, n int) string {
	if len(s) > n {
		return s[:n] + "…"
	}
	return s
}

// ---- P2 clause field tables ----------------------------------------------------------------------

func ruleP2(c *Ctx) {
	c.Rule("P2", "the tables naming a clause's bindings agree: the string fields of GraphClause (minus the PID/OID constants) = the fields GraphClause.BindingsMap registers = the fields Statement.BindingsMap registers; the *Alias fields = the fields HasAlias tests; every field tripleToRow can store is registered", 4)
	gc := c.mustNamed("bql/semantic", "GraphClause")
	if gc == nil {
		return
	}
	st := gc.Underlying().(*types.Struct)
	all := map[string]bool{}
	alias := map[string]bool{}
	for i := 0; i < st.NumFields(); i++ {
		f := st.Field(i)
		if types.Identical(f.Type(), types.Typ[types.String]) && f.Name() != "PID" && f.Name() != "OID" {
			all[f.Name()] = true
			if strings.HasSuffix(f.Name(), "Alias") {
				alias[f.Name()] = true
			}
		}
	}
	fieldsPassedTo := func(fn *ssa.Function, calleeName string) map[string]bool {
		out := map[string]bool{}
		// in fn itself or in a same-package helper it calls (the list of fields may have been moved into one)
		walkHelpers(fn, 2, func(_ *ssa.Function, in ssa.Instruction, _ ssa.Instruction) {
			call, ok := in.(*ssa.Call)
			if !ok || call.Call.StaticCallee() == nil || fnName(call.Call.StaticCallee()) != calleeName {
				return
			}
			for _, a := range call.Call.Args {
				if u, ok := a.(*ssa.UnOp); ok {
					if fa, ok := u.X.(*ssa.FieldAddr); ok && namedOf(fa.X.Type()) == gc {
						out[fieldName(fa.X.Type(), fa.Field)] = true
					}
				}
			}
		})
		return out
	}
	cmp := func(name string, got, want map[string]bool, pos token.Pos, what string) {
		var missing, extra []string
		for k := range want {
			if !got[k] {
				missing = append(missing, k)
			}
		}
		for k := range got {
			if !want[k] {
				extra = append(extra, k)
			}
		}
		sort.Strings(missing)
		sort.Strings(extra)
		if len(missing)+len(extra) > 0 {
			c.bad(name, pos, "%s: missing %v, unexpected %v — a binding set by such a field is invisible to the planner (never joined on, never projectable) or a constant is treated as a binding", what, missing, extra)
		} else {
			c.ok(name, pos, "%d fields agree", len(want))
		}
	}
	if fn := c.mustFunc("bql/semantic", "GraphClause.BindingsMap"); fn != nil {
		cmp("GraphClause.BindingsMap covers the binding fields", fieldsPassedTo(fn, "addToBindings"), all, fn.Pos(), "fields registered vs string fields of GraphClause")
	}
	if fn := c.mustFunc("bql/semantic", "Statement.BindingsMap"); fn != nil {
		cmp("Statement.BindingsMap covers the binding fields", fieldsPassedTo(fn, "addToBindings"), all, fn.Pos(), "fields registered vs string fields of GraphClause")
	}
	if fn := c.mustFunc("bql/semantic", "GraphClause.HasAlias"); fn != nil {
		got := map[string]bool{}
		allInstrs(fn, func(in ssa.Instruction) {
			if bo, ok := in.(*ssa.BinOp); ok && bo.Op == token.NEQ {
				if u, ok := bo.X.(*ssa.UnOp); ok {
					if fa, ok := u.X.(*ssa.FieldAddr); ok && namedOf(fa.X.Type()) == gc {
						got[fieldName(fa.X.Type(), fa.Field)] = true
					}
				}
			}
		})
		cmp("GraphClause.HasAlias covers the alias fields", got, alias, fn.Pos(), "fields tested vs *Alias fields")
	}
	// every field tripleToRow can store is a registered binding field
	if fn := c.mustFunc("bql/planner", "tripleToRow"); fn != nil {
		got := map[string]bool{}
		allInstrs(fn, func(in ssa.Instruction) {
			if mu, ok := in.(*ssa.MapUpdate); ok {
				if u, ok := mu.Key.(*ssa.UnOp); ok {
					if fa, ok := u.X.(*ssa.FieldAddr); ok && namedOf(fa.X.Type()) == gc {
						got[fieldName(fa.X.Type(), fa.Field)] = true
					}
				}
			}
		})
		want := map[string]bool{}
		for k := range all {
			if !strings.Contains(k, "Bound") {
				want[k] = true
			}
		}
		cmp("tripleToRow fills every non-bound binding field", got, want, fn.Pos(), "fields stored into the row vs binding fields (bounds are inputs, not outputs)")
	}
}

// ---- P3 fetch dispatch -----------------------------------------------------------------------------

// blockFactsWithParents returns the facts holding at an instruction, including (for closures) those at the site that creates the closure.
func (c *Ctx) factsForInstr(in ssa.Instruction) []Fact {
	fn := in.Parent()
	out := c.fi(fn).factsAt(in.Block())
	for fn.Parent() != nil {
		par := fn.Parent()
		var site ssa.Instruction
		withClosures(par, func(f *ssa.Function) {
			allInstrs(f, func(i2 ssa.Instruction) {
				if mc, ok := i2.(*ssa.MakeClosure); ok && mc.Fn == fn {
					site = i2
				}
			})
		})
		if site == nil {
			break
		}
		out = append(out, c.fi(site.Parent()).factsAt(site.Block())...)
		fn = site.Parent()
	}
	return out
}

// factsForInstrWithin extends factsForInstr through named helpers: when the instruction sits in a top-level function
// other than root, the facts that hold at *every* call site of that function inside the given set of functions
// (those reachable from root) are added — a helper called only from the construct branch inherits that branch's facts.
func (c *Ctx) factsForInstrWithin(in ssa.Instruction, root *ssa.Function, within map[*ssa.Function]bool, depth int) []Fact {
	out := c.factsForInstr(in)
	top := in.Parent()
	for top.Parent() != nil {
		top = top.Parent()
	}
	if top == root || depth > 3 {
		return out
	}
	var common map[string]Fact
	for _, site := range c.callSites().sites[top] {
		if !within[site.Parent()] {
			continue
		}
		here := map[string]Fact{}
		for _, ft := range c.factsForInstrWithin(site, root, within, depth+1) {
			here[fmt.Sprintf("%s=%v", c.term(ft.Cond), ft.Truth)] = ft
		}
		if common == nil {
			common = here
			continue
		}
		for k := range common {
			if _, ok := here[k]; !ok {
				delete(common, k)
			}
		}
	}
	for _, ft := range common {
		out = append(out, ft)
	}
	return out
}

func ruleP3(c *Ctx) {
	c.Rule("P3", "the driver call made for a clause uses exactly its fixed components: on each of the eight nil-patterns of (S,P,O) simpleFetch calls the storage.Graph method whose node/predicate/object parameters are precisely the components known non-nil on that path, and passes the clause's own components", 8)
	fn := c.mustFunc("bql/planner", "simpleFetch")
	if fn == nil {
		return
	}
	clsParam := paramOfNamed(fn, modPath+"/bql/semantic", "GraphClause")
	if clsParam == nil {
		c.undecided("simpleFetch clause parameter", fn.Pos(), "not found")
		return
	}
	compOf := func(term string) string {
		for _, k := range []string{"S", "P", "O"} {
			if term == "param:"+clsParam.Name()+"."+k {
				return k
			}
		}
		return ""
	}
	patterns := map[string]string{}
	// simpleFetch, its closures, and the same-package helpers it hands the clause's components to (judged under the
	// facts of the call site plus their own)
	var walk func(root *ssa.Function, ctx []Fact, d int, visit func(in ssa.Instruction, facts []Fact))
	walk = func(root *ssa.Function, ctx []Fact, d int, visit func(in ssa.Instruction, facts []Fact)) {
		withClosures(root, func(f *ssa.Function) {
			allInstrs(f, func(in ssa.Instruction) {
				facts := append(append([]Fact{}, ctx...), c.factsForInstr(in)...)
				visit(in, facts)
				if cc := callCommon(in); cc != nil && d < 2 {
					if callee := helperCallee(f, cc); callee != nil && callee.Parent() == nil {
						intoHelper(callee, cc, func() { walk(callee, facts, d+1, visit) })
					}
				}
			})
		})
	}
	walk(fn, nil, 0, func(in ssa.Instruction, inFacts []Fact) {
		{
			call, ok := in.(*ssa.Call)
			if !ok || !call.Call.IsInvoke() || !isNamed(call.Call.Value.Type(), modPath+"/storage", "Graph") {
				return
			}
			m := call.Call.Method
			sig := m.Type().(*types.Signature)
			// is it a read of triples?
			takesComp := false
			isLookup := false
			for i := 0; i < sig.Params().Len(); i++ {
				if componentKind(sig.Params().At(i).Type()) != "" {
					takesComp = true
				}
				if _, ok := sig.Params().At(i).Type().Underlying().(*types.Chan); ok {
					isLookup = true
				}
			}
			if !takesComp && !isLookup {
				return // ID() etc.
			}
			// known-nil / known-non-nil components on this path
			state := map[string]string{}
			for _, ft := range inFacts {
				bo, ok := ft.Cond.(*ssa.BinOp)
				if !ok || (bo.Op != token.EQL && bo.Op != token.NEQ) || !isNilConst(bo.Y) {
					continue
				}
				k := compOf(c.term(bo.X))
				if k == "" {
					continue
				}
				nonNil := (bo.Op == token.NEQ) == ft.Truth
				if nonNil {
					state[k] = "set"
				} else {
					state[k] = "nil"
				}
			}
			// components the call fixes
			used := map[string]bool{}
			var wrongArg []string
			for _, a := range call.Call.Args {
				kind := componentKind(a.Type())
				if kind == "" {
					continue
				}
				if kind == "T" {
					// a triple built from components
					t := c.term(a)
					for _, k := range []string{"S", "P", "O"} {
						if strings.Contains(t, "param:"+clsParam.Name()+"."+k) {
							used[k] = true
						}
					}
					continue
				}
				k := compOf(c.term(a))
				if k == "" {
					wrongArg = append(wrongArg, c.term(a))
					continue
				}
				if k != kind {
					wrongArg = append(wrongArg, fmt.Sprintf("%s passed as %s", k, kind))
				}
				used[k] = true
			}
			pat := ""
			for _, k := range []string{"S", "P", "O"} {
				switch state[k] {
				case "set":
					pat += k
				case "nil":
					pat += "-"
				default:
					pat += "?"
				}
			}
			key := fmt.Sprintf("simpleFetch pattern %s -> %s", pat, m.Name())
			var probs []string
			for _, k := range []string{"S", "P", "O"} {
				switch {
				case state[k] == "":
					probs = append(probs, "component "+k+" is neither known nil nor known set at the call")
				case state[k] == "set" && !used[k]:
					probs = append(probs, "fixed component "+k+" is not passed to the driver: the lookup returns a superset that is never re-filtered")
				case state[k] == "nil" && used[k]:
					probs = append(probs, "component "+k+" is nil on this path but is passed to the driver")
				}
			}
			if len(wrongArg) > 0 {
				probs = append(probs, "argument is not the clause's own component: "+strings.Join(wrongArg, ", "))
			}
			if prev, dup := patterns[pat]; dup && prev != m.Name() {
				probs = append(probs, "pattern also served by "+prev)
			}
			patterns[pat] = m.Name()
			if len(probs) > 0 {
				c.bad(key, in.Pos(), "%s", strings.Join(probs, "; "))
			} else {
				c.ok(key, in.Pos(), "method parameters = the components known non-nil on the path; arguments are cls.S/P/O")
			}
		}
	})
	if len(patterns) != 8 {
		var ps []string
		for p := range patterns {
			ps = append(ps, p)
		}
		sort.Strings(ps)
		c.bad("simpleFetch handles the eight nil-patterns", fn.Pos(), "%d patterns handled (%v), expected 8: some combination of fixed components falls through to a wrong or missing lookup", len(patterns), ps)
	} else {
		c.ok("simpleFetch handles the eight nil-patterns", fn.Pos(), "8 distinct patterns, each with its own driver method")
	}
}

// ---- P5 pipeline order ----------------------------------------------------------------------------------

func ruleP5(c *Ctx) {
	c.Rule("P5", "stage order of a query: Statement.Init < processGraphPattern < projectAndGroupBy < orderBy < having < limit in queryPlan.Execute, each exactly once and each dominating the next; in constructPlan.Execute the query (hence graph resolution) precedes the writer goroutine and every driver write", 6)
	fn := c.mustFunc("bql/planner", "queryPlan.Execute")
	if fn == nil {
		return
	}
	fi := c.fi(fn)
	stages := []string{"Init", "processGraphPattern", "projectAndGroupBy", "orderBy", "having", "limit"}
	// a stage call in Execute itself, or in a same-package helper Execute calls on the same plan (the stages may be
	// grouped into a helper such as "shape the results"): in is the call, inFn its function, top the instruction of
	// Execute it happens under
	type stageCall struct {
		in, top ssa.Instruction
		inFn    *ssa.Function
	}
	calls := map[string][]stageCall{}
	walkHelpers(fn, 2, func(inFn *ssa.Function, in ssa.Instruction, top ssa.Instruction) {
		if call, ok := in.(*ssa.Call); ok {
			if f := call.Call.StaticCallee(); f != nil {
				for _, s := range stages {
					if fnName(f) == s && (s == "Init" || (f.Signature.Recv() != nil && isNamed(f.Signature.Recv().Type(), modPath+"/bql/planner", "queryPlan"))) {
						calls[s] = append(calls[s], stageCall{in, top, inFn})
					}
				}
			}
		}
	})
	// a precedes b on every path: within one function by dominance there, else by dominance of the Execute-level instructions
	precedes := func(a, b stageCall) bool {
		if a.inFn == b.inFn {
			return c.fi(a.inFn).instrDominates(a.in, b.in) && a.in != b.in
		}
		return a.top != b.top && fi.instrDominates(a.top, b.top)
	}
	for i, s := range stages {
		key := "queryPlan.Execute stage " + s
		if len(calls[s]) != 1 {
			c.bad(key, fn.Pos(), "stage %s is called %d times in Execute, expected exactly once", s, len(calls[s]))
			continue
		}
		if i == 0 {
			c.ok(key, calls[s][0].in.Pos(), "first stage")
			continue
		}
		prev := stages[i-1]
		if len(calls[prev]) != 1 {
			continue
		}
		cur := calls[s][0]
		if precedes(calls[prev][0], cur) && !inLoop(c.fi(cur.inFn), cur.in.Block()) && !inLoop(fi, cur.top.Block()) {
			c.ok(key, cur.in.Pos(), "dominated by stage %s", prev)
		} else {
			c.bad(key, cur.in.Pos(), "stage %s at %s is not preceded by stage %s on every path: e.g. LIMIT applied before HAVING/ORDER BY, or HAVING before grouping", s, c.pos(cur.in.Pos()), prev)
		}
	}
	// the table returned is the plan's table after limit
	cf := c.mustFunc("bql/planner", "constructPlan.Execute")
	if cf != nil {
		cfi := c.fi(cf)
		var q ssa.Instruction
		var later []ssa.Instruction
		allInstrs(cf, func(in ssa.Instruction) {
			switch x := in.(type) {
			case *ssa.Call:
				if f := x.Call.StaticCallee(); f != nil && f.Name() == "Execute" && isNamed(f.Signature.Recv().Type(), modPath+"/bql/planner", "queryPlan") {
					q = in
				}
			case *ssa.Go:
				later = append(later, in)
			}
		})
		if q == nil {
			c.bad("constructPlan.Execute runs the query first", cf.Pos(), "constructPlan.Execute no longer runs the embedded query plan")
		} else {
			okAll := len(later) > 0
			for _, l := range later {
				if !cfi.instrDominates(q, l) {
					okAll = false
				}
			}
			// the error of the query is returned before anything is spawned
			c.check(okAll, "constructPlan.Execute runs the query first", q.Pos(), "the query's Execute dominates the writer goroutine", "the writer goroutine can start before the query (and graph resolution) has succeeded")
		}
	}
}

// ---- P6 limit push-down guard ----------------------------------------------------------------------------

func ruleP6(c *Ctx) {
	c.Rule("P6", "the statement limit is pushed into the driver lookup only when no later stage reorders or drops rows: each site copying Statement.Limit() into a fetch is guarded by emptiness tests of GROUP BY, ORDER BY and HAVING and by a single-clause pattern", 1)
	n := 0
	for _, fn := range c.srcFuncs("bql/planner") {
		allInstrs(fn, func(in ssa.Instruction) {
			call, ok := in.(*ssa.Call)
			if !ok || call.Call.StaticCallee() == nil || call.Call.StaticCallee().Name() != "Limit" || !isNamed(call.Call.StaticCallee().Signature.Recv().Type(), modPath+"/bql/semantic", "Statement") {
				return
			}
			// does the value reach a fetch argument?
			reaches := false
			var walk func(v ssa.Value, d int)
			walk = func(v ssa.Value, d int) {
				if d > 4 || v.Referrers() == nil {
					return
				}
				for _, r := range *v.Referrers() {
					switch x := r.(type) {
					case *ssa.Phi:
						walk(x, d+1)
					case *ssa.Convert:
						walk(x, d+1)
					case *ssa.Call:
						if f := x.Call.StaticCallee(); f != nil && fnName(f) == "simpleFetch" {
							reaches = true
						}
					case *ssa.Return:
						// a helper computing the pushed-down limit: follow its result at every call site
						for _, site := range c.callSites().sites[x.Parent()] {
							if cv, ok := site.(ssa.Value); ok {
								walk(cv, d+1)
							}
						}
					}
				}
			}
			walk(call, 0)
			if !reaches {
				return
			}
			n++
			key := fmt.Sprintf("%s pushes the limit down", funcName(fn))
			have := map[string]bool{}
			for _, ft := range c.fi(fn).factsAt(in.Block()) {
				bo, ok := ft.Cond.(*ssa.BinOp)
				if !ok || !ft.Truth || bo.Op != token.EQL {
					continue
				}
				t := c.term(bo)
				for _, acc := range []string{"GroupBy(", "GroupByBindings(", "OrderBy(", "OrderByConfig(", "HavingExpression(", "GraphPatternClauses("} {
					if strings.Contains(t, "len(") && strings.Contains(t, ")."+acc) {
						have[strings.TrimSuffix(acc, "(")] = true
					}
				}
				if call2, ok := bo.X.(*ssa.Call); ok && call2.Call.StaticCallee() != nil && call2.Call.StaticCallee().Name() == "HasHavingClause" {
					have["HavingExpression"] = true
				}
			}
			var missing []string
			if !have["GroupBy"] && !have["GroupByBindings"] {
				missing = append(missing, "GROUP BY")
			}
			if !have["OrderBy"] && !have["OrderByConfig"] {
				missing = append(missing, "ORDER BY")
			}
			if !have["HavingExpression"] {
				missing = append(missing, "HAVING")
			}
			if !have["GraphPatternClauses"] {
				missing = append(missing, "single clause")
			}
			if len(missing) > 0 {
				c.bad(key, in.Pos(), "the limit is copied into the fetch at %s without testing %v: rows are cut before a stage that reorders or drops them, so LIMIT does not return the first n rows of the final result", c.pos(in.Pos()), missing)
			} else {
				c.ok(key, in.Pos(), "guarded by empty GROUP BY, ORDER BY, HAVING and a single-clause pattern")
			}
		})
	}
	if n < 1 {
		c.undecided("limit push-down sites", token.NoPos, "only %d push-down sites found", n)
	}
}

// ---- P7 group key agreement -------------------------------------------------------------------------------

func ruleP7(c *Ctx) {
	c.Rule("P7", "the statement validator and the executor decide alike which projection a GROUP BY entry refers to: both compare the entry with the same set of Projection fields", 1)
	val := c.mustFunc("bql/semantic", "groupByBindingsChecker")
	exe := c.mustFunc("bql/planner", "queryPlan.projectAndGroupBy")
	if val == nil || exe == nil {
		return
	}
	prj := c.namedType("bql/semantic", "Projection")
	fieldsCompared := func(fn *ssa.Function) map[string]bool {
		out := map[string]bool{}
		withClosures(fn, func(f *ssa.Function) {
			allInstrs(f, func(in ssa.Instruction) {
				bo, ok := in.(*ssa.BinOp)
				if !ok || bo.Op != token.EQL || !types.Identical(bo.X.Type().Underlying(), types.Typ[types.String]) {
					return
				}
				tx, ty := c.term(bo.X), c.term(bo.Y)
				// one side a Projection field, the other a group-by entry (not a constant)
				for _, pair := range [][2]string{{tx, ty}, {ty, tx}} {
					for _, fld := range []string{"Alias", "Binding"} {
						if strings.HasSuffix(pair[0], "."+fld) && (strings.Contains(pair[1], "groupBy") || strings.Contains(pair[1], "GroupBy")) {
							out[fld] = true
						}
					}
				}
			})
		})
		return out
	}
	_ = prj
	fv, fe := fieldsCompared(val), fieldsCompared(exe)
	kv, ke := setStr(fv), setStr(fe)
	if len(fv) == 0 || len(fe) == 0 {
		c.undecided("group key fields", val.Pos(), "comparison of a GROUP BY entry with Projection fields not found (validator %s, executor %s)", kv, ke)
		return
	}
	c.check(kv == ke, "group key: validator and executor compare the same projection fields", exe.Pos(), "both compare "+kv,
		fmt.Sprintf("the validator matches a GROUP BY entry against %s but the executor against %s: a statement the validator accepts is grouped on the wrong key or on none", kv, ke))
}

// ---- P8 errors not dropped -----------------------------------------------------------------------------------

var p8Allowed = map[string]string{
	"planner.New calls planner.newQueryPlan": "newQueryPlan only fails if table.New([]string{}) fails, which it cannot for an empty binding list",
}

func errorResultIndex(sig *types.Signature) int {
	n := sig.Results().Len()
	if n == 0 {
		return -1
	}
	last := sig.Results().At(n - 1).Type()
	if types.Identical(last, types.Universe.Lookup("error").Type()) {
		return n - 1
	}
	return -1
}

func ruleP8(c *Ctx, rels ...string) {
	c.Rule("P8", "no error is dropped on a statement path: every call to a module function or storage.Store/Graph method that returns an error has that result bound and used (tested, returned, stored); no expression statement, blank assignment or dead variable", 40)
	for _, fn := range c.srcFuncs(rels...) {
		allInstrs(fn, func(in ssa.Instruction) {
			call, ok := in.(*ssa.Call)
			if !ok {
				return
			}
			var sig *types.Signature
			name := ""
			if call.Call.IsInvoke() {
				if !isNamed(call.Call.Value.Type(), modPath+"/storage", "Graph") && !isNamed(call.Call.Value.Type(), modPath+"/storage", "Store") {
					return
				}
				sig = call.Call.Method.Type().(*types.Signature)
				name = "(" + types.TypeString(call.Call.Value.Type(), shortQual) + ")." + call.Call.Method.Name()
			} else if f := call.Call.StaticCallee(); f != nil && f.Pkg != nil && strings.HasPrefix(f.Pkg.Pkg.Path(), modPath) {
				sig = f.Signature
				name = funcName(f)
			} else if call.Call.StaticCallee() == nil {
				// dynamic call of a function value defined in the module (updater, evaluator closures)
				s, ok := call.Call.Value.Type().Underlying().(*types.Signature)
				if !ok {
					return
				}
				sig = s
				name = "func value " + truncate(c.term(call.Call.Value), 60)
			} else {
				return
			}
			ei := errorResultIndex(sig)
			if ei < 0 {
				return
			}
			key := fmt.Sprintf("%s calls %s", funcName(fn), name)
			used := false
			if sig.Results().Len() == 1 {
				used = len(*call.Referrers()) > 0
			} else {
				for _, r := range *call.Referrers() {
					if ex, ok := r.(*ssa.Extract); ok && ex.Index == ei && len(*ex.Referrers()) > 0 {
						used = true
					}
				}
			}
			if used {
				c.ok(key, in.Pos(), "error result is bound and used")
				return
			}
			if why, ok := p8Allowed[key]; ok {
				c.ok(key, in.Pos(), "allow-listed: %s", why)
				return
			}
			c.bad(key, in.Pos(), "the error returned by %s at %s is discarded: a failing driver or stage is reported as success", name, c.pos(in.Pos()))
		})
	}
}

// ---- P9 driver effect table -------------------------------------------------------------------------------------

var mutators = map[string]bool{"AddTriples": true, "RemoveTriples": true, "NewGraph": true, "DeleteGraph": true}

func ruleP9(c *Ctx) {
	c.Rule("P9", "each statement kind reaches only the driver mutations it states: CREATE -> NewGraph, DROP -> DeleteGraph, INSERT -> AddTriples, DELETE -> RemoveTriples, SELECT/SHOW -> none, CONSTRUCT -> AddTriples and DECONSTRUCT -> RemoveTriples (selected by the plan's construct flag); the fan-out visits every target graph; the target list is the one the grammar puts after INTO/FROM; Reify uses one fresh blank node for all its triples", 12)
	exI := c.mustNamed("bql/planner", "Executor")
	if exI == nil {
		return
	}
	iface, ok := exI.Underlying().(*types.Interface)
	if !ok {
		c.undecided("planner.Executor", token.NoPos, "not an interface")
		return
	}
	allowed := map[string][]string{
		"createPlan": {"NewGraph"}, "dropPlan": {"DeleteGraph"}, "insertPlan": {"AddTriples"}, "deletePlan": {"RemoveTriples"},
		"queryPlan": {}, "showPlan": {}, "constructPlan": {"AddTriples", "RemoveTriples"},
	}
	impls := c.implementers(iface)
	for _, n := range impls {
		ex := methodByName(c, n, "Execute")
		if ex == nil {
			continue
		}
		c.analysed(funcName(ex))
		want, known := allowed[n.Obj().Name()]
		if !known {
			c.bad("plan "+n.Obj().Name()+" effects", ex.Pos(), "executor %s is not in the statement-kind -> effect table of rule P9; add it with the mutations its statement kind states", n.Obj().Name())
			continue
		}
		// reachable functions: static module callees + lexically nested closures
		seen := map[*ssa.Function]bool{}
		found := map[string][]ssa.Instruction{}
		var visit func(f *ssa.Function)
		visit = func(f *ssa.Function) {
			if f == nil || seen[f] || f.Blocks == nil {
				return
			}
			seen[f] = true
			allInstrs(f, func(in ssa.Instruction) {
				cc := callCommon(in)
				if cc == nil {
					return
				}
				if cc.IsInvoke() && (isNamed(cc.Value.Type(), modPath+"/storage", "Graph") || isNamed(cc.Value.Type(), modPath+"/storage", "Store")) && mutators[cc.Method.Name()] {
					found[cc.Method.Name()] = append(found[cc.Method.Name()], in)
				}
				if callee := cc.StaticCallee(); callee != nil && callee.Pkg != nil && strings.HasPrefix(callee.Pkg.Pkg.Path(), modPath) {
					// do not walk from one plan's Execute into a different plan type's Execute except through embedding (constructPlan -> queryPlan)
					visit(callee)
				}
			})
			for _, a := range f.AnonFuncs {
				visit(a)
			}
		}
		visit(ex)
		var got []string
		for m := range found {
			got = append(got, m)
		}
		sort.Strings(got)
		sort.Strings(want)
		key := "plan " + n.Obj().Name() + " effects"
		if strings.Join(got, ",") != strings.Join(want, ",") {
			c.bad(key, ex.Pos(), "%s.Execute can reach driver mutations %v; its statement kind allows exactly %v", n.Obj().Name(), got, want)
		} else {
			c.ok(key, ex.Pos(), "%d functions reachable; driver mutations reachable = %v", len(seen), got)
		}
		// construct flag selects the direction
		if n.Obj().Name() == "constructPlan" {
			for m, sites := range found {
				for _, site := range sites {
					flag := ""
					for _, ft := range c.factsForInstrWithin(site, ex, seen, 0) {
						t := c.term(ft.Cond)
						if strings.HasSuffix(t, ".construct") {
							flag = fmt.Sprint(ft.Truth)
						}
					}
					key := "constructPlan " + m + " under the construct flag"
					switch {
					case m == "AddTriples" && flag == "true":
						c.ok(key, site.Pos(), "AddTriples only on the construct == true edge")
					case m == "AddTriples":
						c.bad(key, site.Pos(), "AddTriples at %s is not confined to the construct edge: DECONSTRUCT could add triples", c.pos(site.Pos()))
					case m == "RemoveTriples" && flag == "true":
						c.bad(key, site.Pos(), "RemoveTriples at %s is on the construct edge: CONSTRUCT would remove triples", c.pos(site.Pos()))
					default:
						c.ok(key, site.Pos(), "RemoveTriples is the default updater, replaced on the construct edge")
					}
				}
			}
		}
	}
	// update fans out over its whole graph list and forwards all triples
	if up := c.mustFunc("bql/planner", "update"); up != nil {
		var rng ssa.Value
		allInstrs(up, func(in ssa.Instruction) {
			if ia, ok := in.(*ssa.IndexAddr); ok && isRangeIndex(ia.Index) {
				rng = ia.X
			}
		})
		gbs := (*ssa.Parameter)(nil)
		for _, p := range up.Params {
			if sl, ok := p.Type().Underlying().(*types.Slice); ok && types.Identical(sl.Elem(), types.Typ[types.String]) {
				gbs = p
			}
		}
		c.check(rng != nil && gbs != nil && isValueOfParam(rng, gbs), "planner.update visits every target graph", up.Pos(), "ranges over the whole graph-name parameter", "update does not range over its whole graph-name list: some target graphs are not updated")
		// the closure passes ts (all triples) to f
		okTs := false
		var tsP *ssa.Parameter
		for _, p := range up.Params {
			if sl, ok := p.Type().Underlying().(*types.Slice); ok && componentKind(sl.Elem()) == "T" {
				tsP = p
			}
		}
		withClosures(up, func(f *ssa.Function) {
			// the call of the updater function value, in the closure or in a named helper the closure hands it to
			walkHelpers(f, 2, func(_ *ssa.Function, in ssa.Instruction, _ ssa.Instruction) {
				if call, ok := in.(*ssa.Call); ok && call.Call.StaticCallee() == nil && !call.Call.IsInvoke() && len(call.Call.Args) == 2 {
					if tsP != nil && c.derivedFromParam(resolveParam(call.Call.Args[1]), tsP, 0) {
						okTs = true
					}
				}
			})
		})
		c.check(okTs, "planner.update forwards the whole triple batch", up.Pos(), "the updater receives the ts parameter", "the updater is not given the full triple slice")
	}
	// target list = the list the grammar puts next to INTO / FROM for that statement
	g := c.grammarTable()
	graphsOf := func(first string) map[string]bool {
		out := map[string]bool{}
		for _, alt := range g.rules["START"] {
			if len(alt.elems) > 0 && !alt.elems[0].isSym && g.tokName[alt.elems[0].tok] == first {
				for _, e := range alt.elems {
					if e.isSym && (e.sym == "INPUT_GRAPHS" || e.sym == "OUTPUT_GRAPHS" || e.sym == "GRAPHS" || e.sym == "CREATE_GRAPHS" || e.sym == "DROP_GRAPHS") {
						out[e.sym] = true
					}
				}
			}
		}
		return out
	}
	for _, pr := range []struct{ plan, first, wantAcc string }{{"insertPlan", "ItemInsert", "OutputGraphNames"}, {"deletePlan", "ItemDelete", "InputGraphNames"}, {"constructPlan", "ItemConstruct", "OutputGraphNames"}} {
		n := c.namedType("bql/planner", pr.plan)
		if n == nil {
			continue
		}
		ex := methodByName(c, n, "Execute")
		if ex == nil {
			continue
		}
		gs := graphsOf(pr.first)
		wantSym := map[string]string{"OutputGraphNames": "OUTPUT_GRAPHS", "InputGraphNames": "INPUT_GRAPHS"}[pr.wantAcc]
		key := pr.plan + " writes to the graphs the grammar names as targets"
		if !gs[wantSym] && pr.plan != "deletePlan" {
			c.undecided(key, ex.Pos(), "the grammar alternative starting with %s has no %s", pr.first, wantSym)
			continue
		}
		if pr.plan == "deletePlan" && !gs["INPUT_GRAPHS"] {
			c.undecided(key, ex.Pos(), "the DELETE alternative has no INPUT_GRAPHS")
			continue
		}
		okAll, nUp := true, 0
		withClosures(ex, func(f *ssa.Function) {
			allInstrs(f, func(in ssa.Instruction) {
				call, ok := in.(*ssa.Call)
				if !ok || call.Call.StaticCallee() == nil || fnName(call.Call.StaticCallee()) != "update" {
					return
				}
				nUp++
				if !strings.Contains(c.term(call.Call.Args[2]), ")."+pr.wantAcc+"(") {
					okAll = false
				}
			})
		})
		c.check(okAll && nUp > 0, key, ex.Pos(), fmt.Sprintf("%d update call(s), each over Statement.%s()", nUp, pr.wantAcc), "an update call of "+pr.plan+" targets a graph list other than Statement."+pr.wantAcc+"(): triples are written to (or removed from) the wrong graphs")
	}
	// Reify: one NewBlankNode, used as subject of the three new triples and returned
	if rf := c.mustFunc("triple", "Triple.Reify"); rf != nil {
		var blanks []*ssa.Call
		allInstrs(rf, func(in ssa.Instruction) {
			if call, ok := in.(*ssa.Call); ok && call.Call.StaticCallee() != nil && call.Call.StaticCallee().Name() == "NewBlankNode" {
				blanks = append(blanks, call)
			}
		})
		key := "(*triple.Triple).Reify uses one fresh blank node"
		if len(blanks) != 1 {
			c.bad(key, rf.Pos(), "%d NewBlankNode calls in Reify, expected exactly one per invocation", len(blanks))
		} else {
			b := blanks[0]
			nNew, nOK := 0, 0
			allInstrs(rf, func(in ssa.Instruction) {
				if call, ok := in.(*ssa.Call); ok && call.Call.StaticCallee() != nil && call.Call.StaticCallee().Name() == "New" && len(call.Call.Args) == 3 {
					nNew++
					if call.Call.Args[0] == ssa.Value(b) {
						nOK++
					}
				}
			})
			retOK := true
			for _, r := range c.returnsOf(rf) {
				rv := resultValues(r)
				if !isNilConst(rv[2]) {
					continue
				}
				if rv[1] != ssa.Value(b) {
					retOK = false
				}
			}
			c.check(nNew >= 3 && nNew == nOK && retOK && !inLoop(c.fi(rf), b.Block()), key, b.Pos(), fmt.Sprintf("%d reification triples, all with the one blank node as subject, which is also returned", nNew), "a reification triple does not use the invocation's single blank node as subject, or another node is returned")
		}
	}
}
