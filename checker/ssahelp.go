package main

import (
	"fmt"
	"go/constant"
	"go/token"
	"go/types"
	"sort"
	"strings"

	"golang.org/x/tools/go/ssa"
)

// fnInfo caches the cut CFG (no-return calls end their block), dominators and post-dominators of one function.
type fnInfo struct {
	fn     *ssa.Function
	n      int
	succs  [][]int
	preds  [][]int
	idom   []int // immediate dominator (entry = itself), -1 unreachable
	ipdom  []int // immediate post-dominator; n = virtual exit; -1 cannot reach exit
	cutAt  []int // index of the first no-return call in the block, or -1
	reach  []bool
	exitOK []bool
}

// isNoReturnCall reports calls after which control does not continue: panic, log.Fatal*, log.Panic*, os.Exit, runtime.Goexit.
func isNoReturnCall(instr ssa.Instruction) bool {
	var cc *ssa.CallCommon
	switch i := instr.(type) {
	case *ssa.Call:
		cc = &i.Call
	case *ssa.Panic:
		return true
	default:
		return false
	}
	if b, ok := cc.Value.(*ssa.Builtin); ok {
		return b.Name() == "panic"
	}
	if f := cc.StaticCallee(); f != nil && f.Pkg != nil {
		return isNoReturnFunc(f.Pkg.Pkg.Path(), f.Name(), f.Signature.Recv() != nil)
	}
	return false
}

func isNoReturnFunc(pkg, name string, method bool) bool {
	switch pkg {
	case "log":
		return strings.HasPrefix(name, "Fatal") || strings.HasPrefix(name, "Panic")
	case "os":
		return name == "Exit" && !method
	case "runtime":
		return name == "Goexit"
	}
	return false
}

func (c *Ctx) fi(fn *ssa.Function) *fnInfo {
	if fi, ok := c.fnCache[fn]; ok {
		return fi
	}
	n := len(fn.Blocks)
	fi := &fnInfo{fn: fn, n: n, succs: make([][]int, n+1), preds: make([][]int, n+1), cutAt: make([]int, n)}
	for _, b := range fn.Blocks {
		fi.cutAt[b.Index] = -1
		for k, in := range b.Instrs {
			if isNoReturnCall(in) {
				if _, isPanic := in.(*ssa.Panic); !isPanic {
					fi.cutAt[b.Index] = k
				}
				break
			}
		}
	}
	for _, b := range fn.Blocks {
		if fi.cutAt[b.Index] >= 0 {
			continue
		}
		for _, s := range b.Succs {
			fi.succs[b.Index] = append(fi.succs[b.Index], s.Index)
			fi.preds[s.Index] = append(fi.preds[s.Index], b.Index)
		}
	}
	// recover block is not an exit path and not reachable by normal flow
	// exits: blocks ending in Return (virtual exit n). Panic blocks and cut blocks do not reach the exit.
	for _, b := range fn.Blocks {
		if fi.cutAt[b.Index] >= 0 || len(b.Instrs) == 0 {
			continue
		}
		if _, ok := b.Instrs[len(b.Instrs)-1].(*ssa.Return); ok {
			fi.succs[b.Index] = append(fi.succs[b.Index], n)
			fi.preds[n] = append(fi.preds[n], b.Index)
		}
	}
	fi.idom = computeIdom(n+1, 0, fi.succs, fi.preds)
	fi.ipdom = computeIdom(n+1, n, fi.preds, fi.succs)
	fi.reach = make([]bool, n+1)
	for i := range fi.reach {
		fi.reach[i] = fi.idom[i] >= 0
	}
	c.fnCache[fn] = fi
	return fi
}

// computeIdom: iterative dominator computation (Cooper-Harvey-Kennedy) on an arbitrary graph.
func computeIdom(n, entry int, succs, preds [][]int) []int {
	order := make([]int, 0, n) // postorder
	seen := make([]bool, n)
	var dfs func(int)
	dfs = func(u int) {
		seen[u] = true
		for _, v := range succs[u] {
			if !seen[v] {
				dfs(v)
			}
		}
		order = append(order, u)
	}
	dfs(entry)
	po := make([]int, n)
	for i := range po {
		po[i] = -1
	}
	for i, u := range order {
		po[u] = i
	}
	idom := make([]int, n)
	for i := range idom {
		idom[i] = -1
	}
	idom[entry] = entry
	intersect := func(a, b int) int {
		for a != b {
			for po[a] < po[b] {
				a = idom[a]
			}
			for po[b] < po[a] {
				b = idom[b]
			}
		}
		return a
	}
	changed := true
	for changed {
		changed = false
		for i := len(order) - 1; i >= 0; i-- {
			u := order[i]
			if u == entry {
				continue
			}
			nd := -1
			for _, p := range preds[u] {
				if po[p] < 0 || idom[p] < 0 {
					continue
				}
				if nd < 0 {
					nd = p
				} else {
					nd = intersect(p, nd)
				}
			}
			if nd >= 0 && idom[u] != nd {
				idom[u] = nd
				changed = true
			}
		}
	}
	return idom
}

func domQuery(idom []int, a, b int) bool {
	if idom[b] < 0 || idom[a] < 0 {
		return false
	}
	for {
		if a == b {
			return true
		}
		if idom[b] == b {
			return false
		}
		b = idom[b]
	}
}

// dominates: block a dominates block b in the cut CFG.
func (fi *fnInfo) dominates(a, b *ssa.BasicBlock) bool { return domQuery(fi.idom, a.Index, b.Index) }

// postDominates: every path from b to a normal return passes through a.
func (fi *fnInfo) postDominates(a, b *ssa.BasicBlock) bool {
	return domQuery(fi.ipdom, a.Index, b.Index)
}

func (fi *fnInfo) reachable(b *ssa.BasicBlock) bool { return fi.reach[b.Index] }

// canReachExit: some path from b reaches a normal return.
func (fi *fnInfo) canReachExit(b *ssa.BasicBlock) bool { return fi.ipdom[b.Index] >= 0 }

func instrIndex(in ssa.Instruction) int {
	for k, x := range in.Block().Instrs {
		if x == in {
			return k
		}
	}
	return -1
}

// instrDominates: a is executed before b on every path reaching b.
func (fi *fnInfo) instrDominates(a, b ssa.Instruction) bool {
	if a.Block() == b.Block() {
		return instrIndex(a) < instrIndex(b)
	}
	return fi.dominates(a.Block(), b.Block())
}

// instrPostDominates: every path from b to a normal return executes a afterwards.
func (fi *fnInfo) instrPostDominates(a, b ssa.Instruction) bool {
	if a.Block() == b.Block() {
		return instrIndex(a) > instrIndex(b) && (fi.cutAt[a.Block().Index] < 0 || fi.cutAt[a.Block().Index] > instrIndex(a))
	}
	return fi.postDominates(a.Block(), b.Block())
}

// natLoop is a natural loop: header plus the blocks that reach a back edge without leaving through the header.
type natLoop struct {
	header int
	blocks map[int]bool
}

// naturalLoops returns the natural loops of the cut CFG (loops sharing a header are merged), innermost first.
func (fi *fnInfo) naturalLoops() []natLoop {
	byHeader := map[int]map[int]bool{}
	for u := 0; u < fi.n; u++ {
		if !fi.reach[u] {
			continue
		}
		for _, h := range fi.succs[u] {
			if h >= fi.n || !domQuery(fi.idom, h, u) {
				continue
			}
			// back edge u -> h
			body := byHeader[h]
			if body == nil {
				body = map[int]bool{h: true}
				byHeader[h] = body
			}
			stack := []int{u}
			for len(stack) > 0 {
				x := stack[len(stack)-1]
				stack = stack[:len(stack)-1]
				if body[x] {
					continue
				}
				body[x] = true
				stack = append(stack, fi.preds[x]...)
			}
		}
	}
	var out []natLoop
	for h, b := range byHeader {
		out = append(out, natLoop{h, b})
	}
	sort.Slice(out, func(i, j int) bool {
		if len(out[i].blocks) != len(out[j].blocks) {
			return len(out[i].blocks) < len(out[j].blocks)
		}
		return out[i].header < out[j].header
	})
	return out
}

// innermostLoop returns the smallest natural loop containing block b, or nil.
func (fi *fnInfo) innermostLoop(b int) *natLoop {
	for _, l := range fi.naturalLoops() {
		if l.blocks[b] {
			ll := l
			return &ll
		}
	}
	return nil
}

// ---- edge facts ----------------------------------------------------------

// Fact is a branch condition known to hold (Truth) on entry to a block.
type Fact struct {
	Cond  ssa.Value
	Truth bool
}

// factsAt returns the branch conditions that hold on every path reaching block b.
func (fi *fnInfo) factsAt(b *ssa.BasicBlock) []Fact {
	var out []Fact
	x := b.Index
	for guard := 0; guard < fi.n+2; guard++ {
		if x < 0 || x >= fi.n {
			break
		}
		blk := fi.fn.Blocks[x]
		// unique live predecessor in the cut CFG
		if ps := fi.preds[x]; len(ps) == 1 {
			p := fi.fn.Blocks[ps[0]]
			if iff, ok := p.Instrs[len(p.Instrs)-1].(*ssa.If); ok && p.Succs[0] != p.Succs[1] {
				if p.Succs[0] == blk {
					out = append(out, expandFact(Fact{iff.Cond, true})...)
				} else if p.Succs[1] == blk {
					out = append(out, expandFact(Fact{iff.Cond, false})...)
				}
			}
		}
		if fi.idom[x] == x || fi.idom[x] < 0 {
			break
		}
		x = fi.idom[x]
	}
	return out
}

// expandFact pushes a negation inward: !(c) true  ==> c false.
func expandFact(f Fact) []Fact {
	out := []Fact{f}
	if u, ok := f.Cond.(*ssa.UnOp); ok && u.Op == token.NOT {
		out = append(out, expandFact(Fact{u.X, !f.Truth})...)
	}
	return out
}

func isNilConst(v ssa.Value) bool {
	c, ok := v.(*ssa.Const)
	return ok && c.Value == nil && !isBasicNonNil(c.Type())
}

func isBasicNonNil(t types.Type) bool {
	_, ok := t.Underlying().(*types.Basic)
	return ok
}

// ---- provenance ------------------------------------------------------------

type termer struct {
	c     *Ctx
	depth int
	seen  map[ssa.Value]bool
	bind  map[*ssa.FreeVar]ssa.Value // closure free variable -> value in the parent
}

// term returns a canonical symbolic description of where a value comes from.
func (c *Ctx) term(v ssa.Value) string {
	t := &termer{c: c, seen: map[ssa.Value]bool{}}
	return t.term(v)
}

func fieldName(t types.Type, idx int) string {
	if p, ok := t.Underlying().(*types.Pointer); ok {
		t = p.Elem()
	}
	if s, ok := t.Underlying().(*types.Struct); ok && idx < s.NumFields() {
		return fieldCanon(s.Field(idx))
	}
	return fmt.Sprintf("f%d", idx)
}

// fieldAlias: unexported struct fields of anchor types that were renamed, with the name the rules know them by.
var fieldAlias = map[*types.Var]string{}

// fieldCanon is the field's name, or its recorded name when the field of an anchor type was renamed.
func fieldCanon(f *types.Var) string {
	if a, ok := fieldAlias[f]; ok {
		return a
	}
	return f.Name()
}

func fieldVar(t types.Type, idx int) *types.Var {
	if p, ok := t.Underlying().(*types.Pointer); ok {
		t = p.Elem()
	}
	if s, ok := t.Underlying().(*types.Struct); ok && idx < s.NumFields() {
		return s.Field(idx)
	}
	return nil
}

// singleStore returns the only value stored into a local cell (Alloc), or nil.
func singleStore(a *ssa.Alloc) ssa.Value {
	var val ssa.Value
	n := 0
	for _, r := range *a.Referrers() {
		switch r := r.(type) {
		case *ssa.Store:
			if r.Addr == a {
				n++
				val = r.Val
			}
		}
	}
	if n == 1 {
		return val
	}
	return nil
}

func (t *termer) term(v ssa.Value) string {
	if v == nil {
		return "?"
	}
	if t.depth > 40 || t.seen[v] {
		return "…" + v.Name()
	}
	t.depth++
	defer func() { t.depth-- }()
	switch x := v.(type) {
	case *ssa.Parameter:
		if b, ok := paramBind[x]; ok && b != ssa.Value(x) {
			return t.term(b) // visiting a helper on behalf of a caller: the argument it was given
		}
		return "param:" + x.Name()
	case *ssa.FreeVar:
		// a captured variable is a cell of the parent; describe it by name
		return "free:" + x.Name()
	case *ssa.Const:
		if x.Value == nil {
			return "nil"
		}
		if x.Value.Kind() == constant.String {
			return fmt.Sprintf("%q", constant.StringVal(x.Value))
		}
		return x.Value.ExactString()
	case *ssa.Global:
		return "global:" + x.Pkg.Pkg.Name() + "." + x.Name()
	case *ssa.Function:
		return "func:" + x.String()
	case *ssa.Builtin:
		return "builtin:" + x.Name()
	case *ssa.Alloc:
		if sv := singleStore(x); sv != nil && !x.Heap {
			return "&(" + t.term(sv) + ")"
		}
		if sv := singleStore(x); sv != nil {
			return "&cell(" + t.term(sv) + ")"
		}
		return "alloc:" + x.Comment
	case *ssa.UnOp:
		if x.Op == token.MUL {
			if a, ok := x.X.(*ssa.Alloc); ok {
				if sv := singleStore(a); sv != nil {
					return t.term(sv)
				}
				return "*alloc:" + a.Comment
			}
			if fv, ok := x.X.(*ssa.FreeVar); ok {
				if sv := freeVarSingleValue(fv); sv != nil {
					return t.term(sv)
				}
				return "var:" + fv.Name()
			}
			s := t.term(x.X)
			if strings.HasPrefix(s, "&") {
				return s[1:]
			}
			return "*" + s
		}
		if x.Op == token.ARROW {
			return "<-" + t.term(x.X)
		}
		return x.Op.String() + t.term(x.X)
	case *ssa.FieldAddr:
		return "&" + strings.TrimPrefix(t.term(x.X), "&") + "." + fieldName(x.X.Type(), x.Field)
	case *ssa.Field:
		return t.term(x.X) + "." + fieldName(x.X.Type(), x.Field)
	case *ssa.IndexAddr:
		return "&" + strings.TrimPrefix(t.term(x.X), "&") + "[" + t.term(x.Index) + "]"
	case *ssa.Index:
		return t.term(x.X) + "[" + t.term(x.Index) + "]"
	case *ssa.Lookup:
		return t.term(x.X) + "[" + t.term(x.Index) + "]"
	case *ssa.Extract:
		return t.term(x.Tuple) + "#" + fmt.Sprint(x.Index)
	case *ssa.Call:
		return t.callTerm(&x.Call)
	case *ssa.Phi:
		t.seen[v] = true
		var parts []string
		set := map[string]bool{}
		for _, e := range x.Edges {
			s := t.term(e)
			if !set[s] {
				set[s] = true
				parts = append(parts, s)
			}
		}
		delete(t.seen, v)
		sort.Strings(parts)
		if len(parts) == 1 {
			return parts[0]
		}
		return "phi(" + strings.Join(parts, " | ") + ")"
	case *ssa.ChangeType:
		return t.term(x.X)
	case *ssa.ChangeInterface:
		return t.term(x.X)
	case *ssa.MakeInterface:
		return t.term(x.X)
	case *ssa.Convert:
		return "conv[" + types.TypeString(x.Type(), shortQual) + "](" + t.term(x.X) + ")"
	case *ssa.BinOp:
		return "(" + t.term(x.X) + " " + x.Op.String() + " " + t.term(x.Y) + ")"
	case *ssa.Slice:
		s := t.term(x.X) + "["
		if x.Low != nil {
			s += t.term(x.Low)
		}
		s += ":"
		if x.High != nil {
			s += t.term(x.High)
		}
		return s + "]"
	case *ssa.TypeAssert:
		return t.term(x.X) + ".(" + types.TypeString(x.AssertedType, shortQual) + ")"
	case *ssa.MakeClosure:
		return "closure:" + x.Fn.(*ssa.Function).String()
	case *ssa.MakeMap:
		return "make(map)"
	case *ssa.MakeSlice:
		return "make([]," + t.term(x.Len) + ")"
	case *ssa.MakeChan:
		return "make(chan)"
	case *ssa.Range:
		return "range(" + t.term(x.X) + ")"
	case *ssa.Next:
		return "next(" + t.term(x.Iter) + ")"
	}
	return fmt.Sprintf("%T:%s", v, v.Name())
}

func shortQual(p *types.Package) string { return p.Name() }

func calleeName(cc *ssa.CallCommon) string {
	if cc.IsInvoke() {
		return "(" + types.TypeString(cc.Value.Type(), shortQual) + ")." + cc.Method.Name()
	}
	if f := cc.StaticCallee(); f != nil {
		return funcName(f)
	}
	if b, ok := cc.Value.(*ssa.Builtin); ok {
		return b.Name()
	}
	return "dynamic"
}

// funcName renders pkg.Func or (pkg.T).M / (*pkg.T).M with short package names.
func funcName(f *ssa.Function) string {
	if f == nil {
		return "<nil>"
	}
	if recv := f.Signature.Recv(); recv != nil {
		return "(" + types.TypeString(recv.Type(), shortQual) + ")." + fnName(f)
	}
	if f.Parent() != nil {
		return funcName(f.Parent()) + "$" + strings.TrimPrefix(f.Name(), f.Parent().Name()+"$")
	}
	if f.Pkg != nil {
		return f.Pkg.Pkg.Name() + "." + fnName(f)
	}
	return fnName(f)
}

func (t *termer) callTerm(cc *ssa.CallCommon) string {
	var args []string
	if cc.IsInvoke() {
		args = append(args, t.term(cc.Value))
	}
	for _, a := range cc.Args {
		args = append(args, t.term(a))
	}
	name := calleeName(cc)
	if name == "dynamic" {
		name = "dyn:" + t.term(cc.Value)
	}
	return name + "(" + strings.Join(args, ", ") + ")"
}

// freeVarSingleValue: the captured variable behind fv is assigned exactly once (in the enclosing function, before capture)
// and never by any closure; returns that value, else nil.
func freeVarSingleValue(fv *ssa.FreeVar) ssa.Value {
	fn := fv.Parent()
	par := fn.Parent()
	if par == nil {
		return nil
	}
	idx := -1
	for i, v := range fn.FreeVars {
		if v == fv {
			idx = i
		}
	}
	var cell *ssa.Alloc
	var viaFree *ssa.FreeVar
	allInstrs(par, func(in ssa.Instruction) {
		if mc, ok := in.(*ssa.MakeClosure); ok && mc.Fn == fn && idx >= 0 && idx < len(mc.Bindings) {
			switch b := mc.Bindings[idx].(type) {
			case *ssa.Alloc:
				cell = b
			case *ssa.FreeVar:
				viaFree = b
			}
		}
	})
	if viaFree != nil {
		return freeVarSingleValue(viaFree)
	}
	if cell == nil {
		return nil
	}
	sv := singleStore(cell)
	if sv == nil {
		return nil
	}
	// no closure that captures the cell stores to it
	stored := false
	var scan func(f *ssa.Function)
	scan = func(f *ssa.Function) {
		for _, a := range f.AnonFuncs {
			allInstrs(par, func(in ssa.Instruction) {
				mc, ok := in.(*ssa.MakeClosure)
				if !ok || mc.Fn != a {
					return
				}
				for i, b := range mc.Bindings {
					if b == ssa.Value(cell) {
						allInstrs(a, func(i2 ssa.Instruction) {
							if st, ok := i2.(*ssa.Store); ok && st.Addr == ssa.Value(a.FreeVars[i]) {
								stored = true
							}
						})
					}
				}
			})
		}
	}
	scan(par)
	if stored {
		return nil
	}
	return sv
}

// ---- misc ------------------------------------------------------------------

// callCommon returns the CallCommon of a call-like instruction (Call, Go, Defer).
func callCommon(in ssa.Instruction) *ssa.CallCommon {
	switch x := in.(type) {
	case *ssa.Call:
		return &x.Call
	case *ssa.Go:
		return &x.Call
	case *ssa.Defer:
		return &x.Call
	}
	return nil
}

// isCallTo reports whether the instruction is a static call to pkgpath.name (function) or a method named name on a type of pkgpath.
func isCallTo(cc *ssa.CallCommon, pkgpath, name string) bool {
	if cc == nil {
		return false
	}
	if cc.IsInvoke() {
		return cc.Method.Name() == name && cc.Method.Pkg() != nil && cc.Method.Pkg().Path() == pkgpath
	}
	f := cc.StaticCallee()
	if f == nil {
		return false
	}
	p := f.Pkg
	if p == nil && f.Origin() != nil {
		p = f.Origin().Pkg
	}
	if p == nil {
		// methods of instantiated/wrapper functions
		if o := f.Object(); o != nil && o.Pkg() != nil {
			return o.Pkg().Path() == pkgpath && f.Name() == name
		}
		return false
	}
	return p.Pkg.Path() == pkgpath && f.Name() == name
}

func isBuiltinCall(cc *ssa.CallCommon, name string) bool {
	if cc == nil {
		return false
	}
	b, ok := cc.Value.(*ssa.Builtin)
	return ok && b.Name() == name
}

// allInstrs visits every instruction of fn (not of its closures).
func allInstrs(fn *ssa.Function, f func(ssa.Instruction)) {
	for _, b := range fn.Blocks {
		for _, in := range b.Instrs {
			f(in)
		}
	}
}

// withClosures visits fn and, recursively, the anonymous functions it defines.
func withClosures(fn *ssa.Function, f func(*ssa.Function)) {
	f(fn)
	for _, a := range fn.AnonFuncs {
		withClosures(a, f)
	}
}

func derefType(t types.Type) types.Type {
	if p, ok := t.Underlying().(*types.Pointer); ok {
		return p.Elem()
	}
	return t
}

func namedOf(t types.Type) *types.Named {
	n, _ := derefType(t).(*types.Named)
	return n
}

func isNamed(t types.Type, pkgpath, name string) bool {
	n := namedOf(t)
	return n != nil && n.Obj().Name() == name && n.Obj().Pkg() != nil && n.Obj().Pkg().Path() == pkgpath
}

// returnsOf lists the Return instructions of fn that are reachable in the cut CFG.
func (c *Ctx) returnsOf(fn *ssa.Function) []*ssa.Return {
	fi := c.fi(fn)
	var out []*ssa.Return
	for _, b := range fn.Blocks {
		if !fi.reachable(b) || fi.cutAt[b.Index] >= 0 || len(b.Instrs) == 0 {
			continue
		}
		if r, ok := b.Instrs[len(b.Instrs)-1].(*ssa.Return); ok {
			if fn.Recover != nil && b == fn.Recover {
				continue
			}
			out = append(out, r)
		}
	}
	return out
}

// resultValues returns the operands of a Return, resolving the defer-spill pattern
// (*cell = v; rundefers; t = *cell; return t) to the stored values.
func resultValues(r *ssa.Return) []ssa.Value {
	out := make([]ssa.Value, len(r.Results))
	for i, v := range r.Results {
		out[i] = v
		if u, ok := v.(*ssa.UnOp); ok && u.Op == token.MUL {
			if a, ok := u.X.(*ssa.Alloc); ok {
				// last store to the cell that dominates in the same block, else unknown
				var last ssa.Value
				for _, in := range r.Block().Instrs {
					if in == ssa.Instruction(u) {
						break
					}
					if st, ok := in.(*ssa.Store); ok && st.Addr == a {
						last = st.Val
					}
				}
				if last != nil {
					out[i] = last
				}
			}
		}
	}
	return out
}

// isPure: fn (a module function with a body) only reads: no store other than to its own locals, no map update or
// delete, no send, go, defer or panic, and every call it makes is to a pure module function, a builtin len/cap, or a
// standard-library function from a small list of value-only helpers. Conservative: anything unknown is impure.
func (c *Ctx) isPure(fn *ssa.Function, seen map[*ssa.Function]bool) bool {
	if fn == nil || len(fn.Blocks) == 0 {
		return false
	}
	if seen[fn] {
		return true
	}
	seen[fn] = true
	pure := true
	allInstrs(fn, func(in ssa.Instruction) {
		if !pure {
			return
		}
		switch x := in.(type) {
		case *ssa.Store:
			// a store into a local cell, or into a field/element of a local composite value
			base := x.Addr
			for {
				if fa, ok := base.(*ssa.FieldAddr); ok {
					base = fa.X
					continue
				}
				if ia, ok := base.(*ssa.IndexAddr); ok {
					if _, isArr := derefType(ia.X.Type()).Underlying().(*types.Array); isArr {
						base = ia.X
						continue
					}
				}
				break
			}
			if _, local := base.(*ssa.Alloc); !local {
				pure = false
			}
		case *ssa.MapUpdate, *ssa.Send, *ssa.Go, *ssa.Defer, *ssa.Panic, *ssa.RunDefers:
			pure = false
		case *ssa.Call:
			cc := &x.Call
			if isBuiltinCall(cc, "len") || isBuiltinCall(cc, "cap") {
				return
			}
			f := cc.StaticCallee()
			if f == nil {
				pure = false
				return
			}
			if f.Pkg != nil && strings.HasPrefix(f.Pkg.Pkg.Path(), modPath) {
				if !c.isPure(f, seen) {
					pure = false
				}
				return
			}
			if f.Pkg != nil {
				switch f.Pkg.Pkg.Path() {
				case "strings", "strconv", "unicode", "unicode/utf8", "math":
					return
				case "reflect":
					if f.Name() == "DeepEqual" {
						return
					}
				}
			}
			pure = false
		}
	})
	return pure
}

// tableFieldValues: if v is read from an element (or a field of an element) of a package-level slice/array variable
// that is only ever assigned its composite-literal initialiser, the values the initialiser stores at that position
// for every element; otherwise nil. This is how table-driven code (keyword tables, symbol tables) is read.
func (c *Ctx) tableFieldValues(v ssa.Value) []ssa.Value {
	field := -1
	var elem ssa.Value
	switch x := v.(type) {
	case *ssa.Field:
		field, elem = x.Field, x.X
	case *ssa.UnOp:
		if x.Op != token.MUL {
			return nil
		}
		if fa, ok := x.X.(*ssa.FieldAddr); ok {
			field = fa.Field
			elem = fa.X // *elem
			if ia, ok := elem.(*ssa.IndexAddr); ok {
				return c.tableInit(ia, field)
			}
			// the range variable copied into a local: sst := table[i]; sst.f
			if al, ok := elem.(*ssa.Alloc); ok {
				if sv := singleStore(al); sv != nil {
					elem = sv
					break
				}
			}
			return nil
		}
		elem = v
	default:
		return nil
	}
	// elem is a loaded element: *(&table[i])
	u, ok := elem.(*ssa.UnOp)
	if !ok || u.Op != token.MUL {
		return nil
	}
	ia, ok := u.X.(*ssa.IndexAddr)
	if !ok {
		return nil
	}
	return c.tableInit(ia, field)
}

func (c *Ctx) tableInit(ia *ssa.IndexAddr, field int) []ssa.Value {
	var g *ssa.Global
	switch x := ia.X.(type) {
	case *ssa.UnOp:
		if x.Op == token.MUL {
			g, _ = x.X.(*ssa.Global)
		}
	case *ssa.Global:
		g = x
	}
	if g == nil || g.Pkg == nil || !strings.HasPrefix(g.Pkg.Pkg.Path(), modPath) {
		return nil
	}
	// the variable is written only by the package initialiser
	var initStore *ssa.Store
	other := false
	for _, fn := range c.srcFuncs() {
		allInstrs(fn, func(in ssa.Instruction) {
			st, ok := in.(*ssa.Store)
			if !ok || st.Addr != ssa.Value(g) {
				return
			}
			if fn.Name() == "init" && fn.Parent() == nil {
				initStore = st
			} else {
				other = true
			}
		})
	}
	if initFn := g.Pkg.Func("init"); initFn != nil && initStore == nil {
		allInstrs(initFn, func(in ssa.Instruction) {
			if st, ok := in.(*ssa.Store); ok && st.Addr == ssa.Value(g) {
				initStore = st
			}
		})
	}
	if other || initStore == nil {
		return nil
	}
	var arr *ssa.Alloc
	switch x := initStore.Val.(type) {
	case *ssa.Slice:
		arr, _ = x.X.(*ssa.Alloc)
	}
	if arr == nil {
		return nil
	}
	var out []ssa.Value
	for _, r := range *arr.Referrers() {
		eia, ok := r.(*ssa.IndexAddr)
		if !ok {
			continue
		}
		for _, r2 := range *eia.Referrers() {
			switch y := r2.(type) {
			case *ssa.FieldAddr:
				if y.Field != field {
					continue
				}
				for _, r3 := range *y.Referrers() {
					if st, ok := r3.(*ssa.Store); ok && st.Addr == ssa.Value(y) {
						out = append(out, st.Val)
					}
				}
			case *ssa.Store:
				if y.Addr != ssa.Value(eia) {
					continue
				}
				if field < 0 {
					out = append(out, y.Val)
					continue
				}
				// the element was built in a local composite literal and copied in whole
				if u, ok := y.Val.(*ssa.UnOp); ok && u.Op == token.MUL {
					if lit, ok := u.X.(*ssa.Alloc); ok {
						for _, lr := range *lit.Referrers() {
							if fa, ok := lr.(*ssa.FieldAddr); ok && fa.Field == field {
								for _, r3 := range *fa.Referrers() {
									if st, ok := r3.(*ssa.Store); ok && st.Addr == ssa.Value(fa) {
										out = append(out, st.Val)
									}
								}
							}
						}
					}
				}
			}
		}
	}
	return out
}

// constIntsOf: v as a constant integer, or — when v is read from an initialised package-level table — every constant
// the table holds at that position (ok only if all of them are constants).
func (c *Ctx) constIntsOf(v ssa.Value) ([]int64, bool) {
	if k, ok := constInt(v); ok {
		return []int64{k}, true
	}
	vals := c.tableFieldValues(v)
	if len(vals) == 0 {
		return nil, false
	}
	var out []int64
	for _, tv := range vals {
		k, ok := constInt(tv)
		if !ok {
			return nil, false
		}
		out = append(out, k)
	}
	return out, true
}


// attributionRoot: findings and reviewed entries are keyed by the function a piece of logic belongs to; when that logic
// was moved into an unexported helper that has exactly one calling function, it still belongs to that caller. Climbs
// single-caller chains (at most 3 levels) and returns the function to name.
func (c *Ctx) attributionRoot(fn *ssa.Function) *ssa.Function {
	cur := fn
	for i := 0; i < 3; i++ {
		top := cur
		for top.Parent() != nil {
			top = top.Parent()
		}
		if top != cur {
			return cur // closures are named after their parent already
		}
		if token.IsExported(cur.Name()) || cur.Signature.Recv() != nil {
			return cur
		}
		idx := c.callSites()
		if idx.escapes[cur] {
			return cur
		}
		callers := map[*ssa.Function]bool{}
		for _, site := range idx.sites[cur] {
			p := site.Parent()
			for p.Parent() != nil {
				p = p.Parent()
			}
			callers[p] = true
		}
		delete(callers, cur)
		if len(callers) != 1 {
			return cur
		}
		for f := range callers {
			cur = f
		}
	}
	return cur
}
