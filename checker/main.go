package main

import (
	"encoding/json"
	"flag"
	"fmt"
	"os"
	"runtime/debug"
	"sort"
	"strconv"
	"strings"
	"time"
)

// Property binds a property id to the rules that decide its structural clauses.
type Property struct {
	ID          string
	Explanation string
	Rules       []func(*Ctx)
	Thorough    []func(*Ctx) // extra rules/scope of the thorough tier
	Level       string       // what assurance, in our own words
	Note        string       // trusted base / assumptions for the level
	Technique   string
	Trusted     []string
	NotDecided  []string
	Assumptions []string
}

var verbose bool

func usage() {
	fmt.Fprintln(os.Stderr, "usage: bwcheck check -property Cxx [-tier quick|thorough] [-repo /repo]\n       bwcheck replay <file>\n       bwcheck list")
	os.Exit(2)
}

func main() {
	if len(os.Args) < 2 {
		usage()
	}
	switch os.Args[1] {
	case "check":
		fs := flag.NewFlagSet("check", flag.ExitOnError)
		prop := fs.String("property", "", "property id")
		tier := fs.String("tier", os.Getenv("VERIF_TIER"), "quick|thorough")
		repo := fs.String("repo", "/repo", "repository root")
		only := fs.String("only", "", "restrict the report to rule[:construct] (replay)")
		fs.BoolVar(&verbose, "v", false, "print every obligation")
		fs.Parse(os.Args[2:])
		if *tier == "" {
			*tier = "quick"
		}
		os.Exit(runCheck(*prop, *tier, *repo, *only))
	case "replay":
		if len(os.Args) < 3 {
			usage()
		}
		b, err := os.ReadFile(os.Args[2])
		if err != nil {
			fmt.Println("bwcheck replay:", err)
			os.Exit(2)
		}
		var r struct{ Property, Rule, Construct string }
		if err := json.Unmarshal(b, &r); err != nil {
			fmt.Println("bwcheck replay:", err)
			os.Exit(2)
		}
		repo := "/repo"
		if len(os.Args) > 3 {
			repo = os.Args[3]
		}
		os.Exit(runCheck(r.Property, "quick", repo, r.Rule+":"+r.Construct))
	case "checkall":
		// development aid: load once, decide every property (evidence goes to VERIF_DIR like `check`)
		fs := flag.NewFlagSet("checkall", flag.ExitOnError)
		repo := fs.String("repo", "/repo", "repository root")
		fs.Parse(os.Args[2:])
		os.Exit(runAll(*repo))
	case "anchors":
		// records, for every anchor function/type the rules resolve by name on this tree, its signature/shape
		fs := flag.NewFlagSet("anchors", flag.ExitOnError)
		repo := fs.String("repo", "/repo", "repository root")
		fs.Parse(os.Args[2:])
		os.Exit(writeAnchors(*repo))
	case "manifest":
		writeManifest()
	case "list":
		var ids []string
		for id := range properties {
			ids = append(ids, id)
		}
		sort.Strings(ids)
		for _, id := range ids {
			fmt.Println(id)
		}
	default:
		usage()
	}
}

func writeAnchors(repo string) int {
	c, err := Load(repo, "quick")
	if err != nil {
		fmt.Printf("bwcheck: %v\n", err)
		return 2
	}
	c.anchorSeen = map[string]string{}
	var ids []string
	for id := range properties {
		ids = append(ids, id)
	}
	sort.Strings(ids)
	for _, id := range ids {
		c.Obls, c.RuleStats, c.funcsAnalysed, c.curRule = nil, map[string]*RuleStat{}, map[string]bool{}, ""
		for _, r := range properties[id].Rules {
			r(c)
		}
	}
	for _, ea := range extraAnchors {
		c.lookupFunc(ea[0], ea[1])
	}
	for _, ea := range extraTypeAnchors {
		c.namedType(ea[0], ea[1])
	}
	b, _ := json.MarshalIndent(c.anchorSeen, "", " ")
	os.Stdout.Write(append(b, '\n'))
	return 0
}

func runAll(repo string) (code int) {
	defer func() {
		if r := recover(); r != nil {
			fmt.Printf("bwcheck: internal error in the checker: %v\n%s\n", r, debug.Stack())
			code = 2
		}
	}()
	c, err := Load(repo, "quick")
	if err != nil {
		fmt.Printf("bwcheck: %v\n", err)
		return 2
	}
	var ids []string
	for id := range properties {
		ids = append(ids, id)
	}
	sort.Strings(ids)
	for _, id := range ids {
		start := time.Now()
		c.Obls, c.RuleStats, c.funcsAnalysed, c.curRule = nil, map[string]*RuleStat{}, map[string]bool{}, ""
		for _, r := range properties[id].Rules {
			r(c)
		}
		rc := c.Finish(properties[id], start, 0, map[string]any{})
		fmt.Printf("%s exit=%d\n", id, rc)
		if rc > code {
			code = rc
		}
	}
	return code
}

func runCheck(id, tier, repo, only string) (code int) {
	start := time.Now()
	prop, ok := properties[id]
	if !ok {
		fmt.Printf("bwcheck: unknown property %q\n", id)
		return 2
	}
	if os.Getenv("GOWORK") != "" && os.Getenv("GOWORK") != "off" {
		fmt.Println("bwcheck: GOWORK is set; refusing to analyse a workspace instead of /repo")
		return 2
	}
	defer func() {
		if r := recover(); r != nil {
			fmt.Printf("bwcheck: internal error in the checker (the check did not run): %v\n%s\n", r, debug.Stack())
			code = 2
		}
	}()
	seed, _ := strconv.Atoi(os.Getenv("VERIF_SEED"))
	c, err := Load(repo, tier)
	if err != nil {
		fmt.Printf("bwcheck: %v\n", err)
		// A tree that does not load or type-check cannot be judged.
		return 2
	}
	for _, r := range prop.Rules {
		r(c)
	}
	extra := map[string]any{}
	if tier == "thorough" {
		for _, r := range prop.Thorough {
			r(c)
		}
		extra["thorough_extras"] = "rules re-run with the thorough scope: tools/… and examples/… callers included, GOARCH=386 bounds pass where L1 is involved"
	}
	if only != "" {
		parts := strings.SplitN(only, ":", 2)
		var kept []Obligation
		for _, o := range c.Obls {
			if o.Rule == parts[0] && (len(parts) == 1 || parts[1] == "" || o.Key == parts[1]) {
				kept = append(kept, o)
			}
		}
		c.Obls = kept
		for _, rs := range c.RuleStats {
			rs.Min = 0
		}
	}
	return c.Finish(prop, start, seed, extra)
}
