package main

import (
	"crypto/sha1"
	"encoding/hex"
	"encoding/json"
	"fmt"
	"go/ast"
	"go/constant"
	"go/token"
	"go/types"
	"os"
	"path/filepath"
	"regexp"
	"sort"
	"strings"
	"time"

	"golang.org/x/tools/go/packages"
	"golang.org/x/tools/go/ssa"
	"golang.org/x/tools/go/ssa/ssautil"
)

const modPath = "github.com/google/badwolf"

// Verdicts of an obligation.
const (
	Proved    = "proved"
	Violated  = "violated"
	Undecided = "undecided"
	Known     = "known-finding"
	Info      = "info" // listed, not judged
)

// Obligation is one (rule, construct) pair decided on the current tree.
type Obligation struct {
	Rule       string `json:"rule"`
	Key        string `json:"construct"` // canonical, line-free description
	Pos        string `json:"pos,omitempty"`
	Verdict    string `json:"verdict"`
	Fact       string `json:"fact,omitempty"`       // the argument used / why it fails
	Nontrivial bool   `json:"nontrivial,omitempty"` // needed a path/dataflow/table argument
}

// Ctx is the loaded program plus the obligations collected so far.
type Ctx struct {
	aliasNoted    map[*ssa.Function]bool
	limitSources  []*ssa.Call // scratch of rule P6c
	csIdx         *callSiteIdx
	anchors       map[string]string
	anchorsLoaded bool
	anchorSeen    map[string]string
	Repo          string
	Tier          string
	Fset          *token.FileSet
	Pkgs          []*packages.Package // module packages only
	ByPath        map[string]*packages.Package
	Prog          *ssa.Program
	SSA           map[string]*ssa.Package
	AllPkgs       int

	Obls      []Obligation
	RuleStats map[string]*RuleStat
	curRule   string

	funcsAnalysed map[string]bool
	fnCache       map[*ssa.Function]*fnInfo
	bceCache      map[string][]bceSite
	misc          map[string]any
}

// RuleStat keeps the per-rule instance counts so a vacuous pass is visible.
type RuleStat struct {
	Rule      string `json:"rule"`
	Statement string `json:"statement"`
	Instances int    `json:"instances"`
	Min       int    `json:"confirmed_minimum"`
	Violated  int    `json:"violated"`
	Known     int    `json:"known_findings"`
	Undecided int    `json:"undecided"`
}

func goEnv() []string {
	env := []string{}
	for _, e := range os.Environ() {
		k := strings.SplitN(e, "=", 2)[0]
		switch k {
		case "GOFLAGS", "GOWORK", "GOTOOLCHAIN", "GOPROXY", "GOSUMDB", "PATH", "GOARCH", "GOOS":
			continue
		}
		env = append(env, e)
	}
	env = append(env,
		"GOFLAGS=-mod=mod", "GOWORK=off", "GOTOOLCHAIN=local", "GOPROXY=off", "GOSUMDB=off",
		"PATH=/opt/veriftools/go1.26.8/bin:"+os.Getenv("PATH"))
	return env
}

// Load type-checks /repo's current working tree and builds SSA for it.
func Load(repo, tier string) (*Ctx, error) {
	// go/packages resolves the go command through this process's PATH.
	os.Setenv("PATH", "/opt/veriftools/go1.26.8/bin:"+os.Getenv("PATH"))
	fset := token.NewFileSet()
	cfg := &packages.Config{
		Mode:  packages.LoadAllSyntax,
		Dir:   repo,
		Fset:  fset,
		Tests: false,
		Env:   goEnv(),
	}
	pkgs, err := packages.Load(cfg, "./...")
	if err != nil {
		return nil, fmt.Errorf("load: %v", err)
	}
	if len(pkgs) == 0 {
		return nil, fmt.Errorf("load: zero packages")
	}
	var errs []string
	n := 0
	packages.Visit(pkgs, nil, func(p *packages.Package) {
		n++
		for _, e := range p.Errors {
			errs = append(errs, e.Error())
		}
	})
	if len(errs) > 0 {
		return nil, fmt.Errorf("load: %d type/parse errors, first: %s", len(errs), errs[0])
	}
	c := &Ctx{Repo: repo, Tier: tier, Fset: fset, ByPath: map[string]*packages.Package{}, SSA: map[string]*ssa.Package{},
		RuleStats: map[string]*RuleStat{}, funcsAnalysed: map[string]bool{}, fnCache: map[*ssa.Function]*fnInfo{}, AllPkgs: n}
	prog, _ := ssautil.AllPackages(pkgs, ssa.BuilderMode(0))
	prog.Build()
	c.Prog = prog
	for _, p := range pkgs {
		if strings.HasPrefix(p.PkgPath, modPath) {
			c.Pkgs = append(c.Pkgs, p)
			c.ByPath[p.PkgPath] = p
			c.SSA[p.PkgPath] = prog.Package(p.Types)
		}
	}
	if len(c.Pkgs) < 10 {
		return nil, fmt.Errorf("load: only %d module packages", len(c.Pkgs))
	}
	c.aliasNoted = map[*ssa.Function]bool{}
	c.resolveRecordedAnchors()
	return c, nil
}

func (c *Ctx) pkg(rel string) *packages.Package {
	if rel == "" {
		return c.ByPath[modPath]
	}
	return c.ByPath[modPath+"/"+rel]
}

func (c *Ctx) ssapkg(rel string) *ssa.Package {
	if rel == "" {
		return c.SSA[modPath]
	}
	return c.SSA[modPath+"/"+rel]
}

// pos renders a position relative to the repo root.
func (c *Ctx) pos(p token.Pos) string {
	if !p.IsValid() {
		return "(no position)"
	}
	ps := c.Fset.Position(p)
	rel, err := filepath.Rel(c.Repo, ps.Filename)
	if err != nil {
		rel = ps.Filename
	}
	return fmt.Sprintf("%s:%d", rel, ps.Line)
}

// Rule starts a rule; subsequent obligations are attributed to it.
func (c *Ctx) Rule(id, statement string, min int) {
	c.curRule = id
	if _, ok := c.RuleStats[id]; !ok {
		c.RuleStats[id] = &RuleStat{Rule: id, Statement: statement, Min: min}
	}
}

func (c *Ctx) add(verdict, key string, p token.Pos, nontrivial bool, format string, a ...any) {
	ps := c.pos(p)
	if !p.IsValid() {
		ps = ""
	}
	o := Obligation{Rule: c.curRule, Key: key, Pos: ps, Verdict: verdict, Fact: fmt.Sprintf(format, a...), Nontrivial: nontrivial}
	c.Obls = append(c.Obls, o)
}

func (c *Ctx) ok(key string, p token.Pos, format string, a ...any) {
	c.add(Proved, key, p, true, format, a...)
}
func (c *Ctx) trivial(key string, p token.Pos, format string, a ...any) {
	c.add(Proved, key, p, false, format, a...)
}
func (c *Ctx) bad(key string, p token.Pos, format string, a ...any) {
	c.add(Violated, key, p, true, format, a...)
}
func (c *Ctx) undecided(key string, p token.Pos, format string, a ...any) {
	c.add(Undecided, key, p, true, format, a...)
}
func (c *Ctx) info(key string, p token.Pos, format string, a ...any) {
	c.add(Info, key, p, false, format, a...)
}

// check is a convenience: proved if cond else violated.
func (c *Ctx) check(cond bool, key string, p token.Pos, okf, badf string) {
	if cond {
		c.ok(key, p, "%s", okf)
	} else {
		c.bad(key, p, "%s", badf)
	}
}

func (c *Ctx) analysed(fn string) { c.funcsAnalysed[fn] = true }

// ---- anchors -------------------------------------------------------------

// lookupFunc resolves a package-level function or a method "T.M" / "(*T).M" in a module package: by name, and —
// when an unexported function or type was renamed — by the signature recorded for that anchor on the reference tree
// (anchors.json), provided exactly one function of the package has that signature and is not itself another anchor.
func (c *Ctx) lookupFunc(rel, name string) *ssa.Function {
	if fn := c.lookupFuncByName(rel, name); fn != nil {
		if c.anchorSeen != nil {
			c.anchorSeen["func "+rel+"|"+name] = funcAnchorSig(fn)
		}
		return fn
	}
	want, ok := c.anchorRef()["func "+rel+"|"+name]
	if !ok {
		return nil
	}
	sp := c.ssapkg(rel)
	if sp == nil {
		return nil
	}
	// names that are anchors themselves and still resolve keep their own identity
	taken := map[*ssa.Function]bool{}
	for k := range c.anchorRef() {
		if strings.HasPrefix(k, "func "+rel+"|") {
			if f := c.lookupFuncByName(rel, strings.TrimPrefix(k, "func "+rel+"|")); f != nil {
				taken[f] = true
			}
		}
	}
	wantSig := strings.SplitN(want, " ## ", 2)[0]
	var cands, exact []*ssa.Function
	for _, fn := range c.srcFuncs(rel) {
		if fn.Parent() != nil || fn.Synthetic != "" || taken[fn] {
			continue
		}
		sig := funcAnchorSig(fn)
		if sig == want {
			exact = append(exact, fn)
		}
		if strings.SplitN(sig, " ## ", 2)[0] == wantSig {
			cands = append(cands, fn)
		}
	}
	var hit *ssa.Function
	switch {
	case len(exact) == 1:
		hit = exact[0] // same signature and same body fingerprint: a pure rename
	case len(cands) == 1:
		hit = cands[0] // the only function of the package with that signature
	}
	if hit != nil {
		short := name
		if i := strings.LastIndex(name, "."); i >= 0 {
			short = name[i+1:]
		}
		nameAlias[hit] = short
		if !c.aliasNoted[hit] {
			c.aliasNoted[hit] = true
			fmt.Printf("note: anchor %s.%s not found by name; resolved by its recorded signature to %s\n", rel, name, hit.String())
		}
		return hit
	}
	return nil
}

// nameAlias: functions that were resolved for a renamed anchor, with the name the rules know them by.
var nameAlias = map[*ssa.Function]string{}

// fnName is f.Name(), or the name the rules know f by when it was found through the renamed-anchor fallback.
func fnName(f *ssa.Function) string {
	if f == nil {
		return ""
	}
	if a, ok := nameAlias[f]; ok {
		return a
	}
	return f.Name()
}

// extraAnchors: module functions the rules recognise by name at call sites without resolving them as anchors
// themselves; they are recorded in anchors.json too so that a rename is followed.
var extraAnchors = [][2]string{
	{"bql/table", "stringLess"}, {"bql/planner", "update"}, {"bql/planner", "simpleExist"}, {"bql/planner", "simpleFetch"},
	{"bql/planner", "queryPlan.specifyClauseWithTable"}, {"bql/planner", "constructPlan.processConstructClause"},
	{"bql/planner", "queryPlan.processClause"}, {"bql/planner", "queryPlan.processGraphPattern"}, {"bql/planner", "queryPlan.projectAndGroupBy"},
	{"bql/planner", "queryPlan.orderBy"}, {"bql/planner", "queryPlan.having"}, {"bql/planner", "queryPlan.limit"},
	{"bql/lexer", "lexPredicate"}, {"bql/lexer", "lexLiteral"}, {"bql/lexer", "lexToken"}, {"bql/lexer", "lexSpace"},
	{"bql/planner", "addTriples"}, {"bql/planner", "drainChannel"},
}

// resolveRecordedAnchors looks every recorded anchor up once, so that renamed ones get their alias before any rule runs.
func (c *Ctx) resolveRecordedAnchors() {
	var ks []string
	for k := range c.anchorRef() {
		ks = append(ks, k)
	}
	sort.Strings(ks)
	for _, k := range ks {
		if strings.HasPrefix(k, "func ") {
			parts := strings.SplitN(strings.TrimPrefix(k, "func "), "|", 2)
			if len(parts) == 2 {
				c.lookupFunc(parts[0], parts[1])
			}
		}
	}
	// types first resolve (possibly by shape); then renamed fields get their recorded names
	for _, k := range ks {
		if !strings.HasPrefix(k, "type ") {
			continue
		}
		parts := strings.SplitN(strings.TrimPrefix(k, "type "), "|", 2)
		if len(parts) != 2 {
			continue
		}
		n := c.namedType(parts[0], parts[1])
		if n == nil {
			continue
		}
		st, ok := n.Underlying().(*types.Struct)
		want := c.anchorRef()[k]
		if !ok || !strings.HasPrefix(want, "struct{") {
			continue
		}
		cur := typeAnchorSig(n)
		if cur == want || typeShapeNoNames(cur) != typeShapeNoNames(want) {
			continue
		}
		recorded := strings.Split(strings.TrimSuffix(strings.TrimPrefix(want, "struct{"), "}"), "; ")
		if len(recorded) != st.NumFields() {
			continue
		}
		for i, rf := range recorded {
			name := rf
			if j := strings.Index(rf, " "); j >= 0 {
				name = rf[:j]
			}
			if f := st.Field(i); f.Name() != name {
				fieldAlias[f] = name
				fmt.Printf("note: field %s.%s of anchor type %s is known to the rules as %s\n", n.Obj().Name(), f.Name(), parts[1], name)
			}
		}
	}
}

// funcAnchorSig: what identifies an anchor function besides its name — receiver kind and the full signature.
func funcAnchorSig(fn *ssa.Function) string {
	recv := ""
	if r := fn.Signature.Recv(); r != nil {
		recv = "method "
		if _, isPtr := r.Type().(*types.Pointer); isPtr {
			recv = "ptr-method "
		}
	}
	anon := func(t *types.Tuple) *types.Tuple {
		var vs []*types.Var
		for i := 0; i < t.Len(); i++ {
			vs = append(vs, types.NewVar(token.NoPos, nil, "", t.At(i).Type()))
		}
		return types.NewTuple(vs...)
	}
	sig := types.NewSignatureType(nil, nil, nil, anon(fn.Signature.Params()), anon(fn.Signature.Results()), fn.Signature.Variadic())
	str := types.TypeString(sig, func(p *types.Package) string { return p.Path() })
	// unexported named types of the function's own package are written by shape, so that renaming the type does not
	// change the signature of the functions that mention it
	if fn.Pkg != nil {
		sc := fn.Pkg.Pkg.Scope()
		for _, nm := range sc.Names() {
			tn, ok := sc.Lookup(nm).(*types.TypeName)
			if !ok || tn.IsAlias() || token.IsExported(nm) {
				continue
			}
			full := fn.Pkg.Pkg.Path() + "." + nm
			if !strings.Contains(str, full) {
				continue
			}
			if n, ok := tn.Type().(*types.Named); ok {
				h := sha1.Sum([]byte(typeAnchorSig(n)))
				str = regexp.MustCompile(regexp.QuoteMeta(full)+`\b`).ReplaceAllString(str, fn.Pkg.Pkg.Path()+".#"+hex.EncodeToString(h[:4]))
			}
		}
	}
	return recv + str + " ## " + bodyFingerprint(fn)
}

// bodyFingerprint summarises a body by what a rename of module identifiers leaves unchanged: block and instruction
// counts by kind, string constants, and the standard-library functions called.
func bodyFingerprint(fn *ssa.Function) string {
	kinds := map[string]int{}
	var consts, libs []string
	for _, b := range fn.Blocks {
		for _, in := range b.Instrs {
			kinds[strings.TrimPrefix(fmt.Sprintf("%T", in), "*ssa.")]++
			var ops []*ssa.Value
			for _, op := range in.Operands(ops) {
				if k, ok := (*op).(*ssa.Const); ok && k.Value != nil && k.Value.Kind() == constant.String {
					consts = append(consts, constant.StringVal(k.Value))
				}
			}
			if cc := callCommon(in); cc != nil {
				if f := cc.StaticCallee(); f != nil && f.Pkg != nil && !strings.HasPrefix(f.Pkg.Pkg.Path(), modPath) {
					libs = append(libs, f.Pkg.Pkg.Path()+"."+f.Name())
				}
			}
		}
	}
	var ks []string
	for k, n := range kinds {
		ks = append(ks, fmt.Sprintf("%s=%d", k, n))
	}
	sort.Strings(ks)
	sort.Strings(consts)
	sort.Strings(libs)
	h := sha1.Sum([]byte(fmt.Sprintf("%d|%v|%q|%v", len(fn.Blocks), ks, consts, libs)))
	return hex.EncodeToString(h[:6])
}

// anchorRef loads the recorded anchor signatures (VERIF_DIR/anchors.json; written by `bwcheck anchors`).
func (c *Ctx) anchorRef() map[string]string {
	if c.anchorsLoaded {
		return c.anchors
	}
	c.anchorsLoaded = true
	c.anchors = map[string]string{}
	for _, dir := range []string{verifDir(), "/verif"} {
		if b, err := os.ReadFile(filepath.Join(dir, "anchors.json")); err == nil {
			json.Unmarshal(b, &c.anchors)
			break
		}
	}
	return c.anchors
}

func (c *Ctx) lookupFuncByName(rel, name string) *ssa.Function {
	sp := c.ssapkg(rel)
	if sp == nil {
		return nil
	}
	if i := strings.Index(name, "."); i >= 0 {
		tn, mn := name[:i], name[i+1:]
		m := sp.Members[tn]
		t, ok := m.(*ssa.Type)
		if !ok {
			return nil
		}
		for _, typ := range []types.Type{types.NewPointer(t.Type()), t.Type()} {
			ms := c.Prog.MethodSets.MethodSet(typ)
			for i := 0; i < ms.Len(); i++ {
				sel := ms.At(i)
				if sel.Obj().Name() == mn {
					if fn := c.Prog.MethodValue(sel); fn != nil && fn.Synthetic == "" {
						return fn
					} else if fn != nil {
						// wrapper: find the declared function
						if f := c.Prog.FuncValue(sel.Obj().(*types.Func)); f != nil {
							return f
						}
					}
				}
			}
		}
		return nil
	}
	return sp.Func(name)
}

// mustFunc resolves an anchor function or records an undecided obligation.
func (c *Ctx) mustFunc(rel, name string) *ssa.Function {
	fn := c.lookupFunc(rel, name)
	if fn == nil || fn.Blocks == nil {
		c.undecided("anchor "+rel+"."+name, token.NoPos, "anchor function %s.%s does not resolve on this tree; the rule cannot be decided", rel, name)
		return nil
	}
	c.analysed(fn.String())
	return fn
}

// namedType resolves a named type of a module package.
func (c *Ctx) namedType(rel, name string) *types.Named {
	p := c.pkg(rel)
	if p == nil {
		return nil
	}
	if o := p.Types.Scope().Lookup(name); o != nil {
		n, _ := o.Type().(*types.Named)
		if n != nil && c.anchorSeen != nil {
			c.anchorSeen["type "+rel+"|"+name] = typeAnchorSig(n)
		}
		return n
	}
	// renamed type: the one named type of the package with the recorded shape that is not another anchor
	want, ok := c.anchorRef()["type "+rel+"|"+name]
	if !ok {
		return nil
	}
	var cands []*types.Named
	for _, nm := range p.Types.Scope().Names() {
		tn, ok := p.Types.Scope().Lookup(nm).(*types.TypeName)
		if !ok || tn.IsAlias() {
			continue
		}
		if _, isAnchor := c.anchorRef()["type "+rel+"|"+nm]; isAnchor {
			continue
		}
		if n, ok := tn.Type().(*types.Named); ok && typeAnchorSig(n) == want {
			cands = append(cands, n)
		}
	}
	if len(cands) == 0 {
		// the type and some of its fields renamed together: same field types in the same order
		for _, nm := range p.Types.Scope().Names() {
			tn, ok := p.Types.Scope().Lookup(nm).(*types.TypeName)
			if !ok || tn.IsAlias() {
				continue
			}
			if _, isAnchor := c.anchorRef()["type "+rel+"|"+nm]; isAnchor {
				continue
			}
			if n, ok := tn.Type().(*types.Named); ok && strings.HasPrefix(want, "struct{") && typeShapeNoNames(typeAnchorSig(n)) == typeShapeNoNames(want) {
				cands = append(cands, n)
			}
		}
	}
	if len(cands) == 1 {
		c.infoNote("anchor type "+rel+"."+name, "not found by name; resolved by its recorded shape to %s", cands[0].Obj().Name())
		return cands[0]
	}
	return nil
}

// typeAnchorSig: the underlying type with struct fields listed by name and type (order-insensitive).
func typeAnchorSig(n *types.Named) string {
	q := func(p *types.Package) string { return p.Path() }
	st, ok := n.Underlying().(*types.Struct)
	if !ok {
		return types.TypeString(n.Underlying(), q)
	}
	var fs []string
	for i := 0; i < st.NumFields(); i++ {
		// self references are written without the type's own name
		fs = append(fs, st.Field(i).Name()+" "+strings.ReplaceAll(types.TypeString(st.Field(i).Type(), q), n.Obj().Pkg().Path()+"."+n.Obj().Name(), "<self>"))
	}
	return "struct{" + strings.Join(fs, "; ") + "}"
}

// typeShapeNoNames: the field types in declaration order (what a renamed field leaves unchanged).
func typeShapeNoNames(sig string) string {
	if !strings.HasPrefix(sig, "struct{") {
		return sig
	}
	var ts []string
	for _, f := range strings.Split(strings.TrimSuffix(strings.TrimPrefix(sig, "struct{"), "}"), "; ") {
		if i := strings.Index(f, " "); i >= 0 {
			ts = append(ts, f[i+1:])
		}
	}
	return "struct{" + strings.Join(ts, "; ") + "}"
}

// extraTypeAnchors: struct types whose field names the rules mention without resolving the type as an anchor.
var extraTypeAnchors = [][2]string{
	{"bql/planner", "queryPlan"}, {"bql/planner", "constructPlan"}, {"bql/semantic", "Statement"}, {"bql/semantic", "GraphClause"},
	{"bql/semantic", "Projection"}, {"bql/lexer", "lexer"}, {"bql/grammar", "LLk"}, {"bql/grammar", "Parser"},
	{"storage/memory", "memory"}, {"storage/memory", "memoryStore"}, {"storage/memory", "checker"},
	{"storage/memoization", "graphMemoizer"}, {"storage/memoization", "storeMemoizer"}, {"bql/table", "Table"},
}

func (c *Ctx) mustNamed(rel, name string) *types.Named {
	n := c.namedType(rel, name)
	if n == nil {
		c.undecided("anchor type "+rel+"."+name, token.NoPos, "anchor type %s.%s does not resolve on this tree", rel, name)
	}
	return n
}

// implementers returns the named module types (non-interface) whose pointer or value method set satisfies iface.
func (c *Ctx) implementers(iface *types.Interface) []*types.Named {
	var out []*types.Named
	for _, p := range c.Pkgs {
		sc := p.Types.Scope()
		for _, n := range sc.Names() {
			tn, ok := sc.Lookup(n).(*types.TypeName)
			if !ok || tn.IsAlias() {
				continue
			}
			named, ok := tn.Type().(*types.Named)
			if !ok {
				continue
			}
			if _, isI := named.Underlying().(*types.Interface); isI {
				continue
			}
			if types.Implements(named, iface) || types.Implements(types.NewPointer(named), iface) {
				out = append(out, named)
			}
		}
	}
	sort.Slice(out, func(i, j int) bool { return out[i].String() < out[j].String() })
	return out
}

// methodsOf returns the declared (source) methods of a named type as SSA functions, sorted by name.
func (c *Ctx) methodsOf(n *types.Named) []*ssa.Function {
	var out []*ssa.Function
	for i := 0; i < n.NumMethods(); i++ {
		if fn := c.Prog.FuncValue(n.Method(i)); fn != nil && fn.Blocks != nil {
			out = append(out, fn)
		}
	}
	sort.Slice(out, func(i, j int) bool { return out[i].Name() < out[j].Name() })
	return out
}

// srcFuncs returns every source function (including anonymous ones) of the module packages under the given relative paths.
func (c *Ctx) srcFuncs(rels ...string) []*ssa.Function {
	var out []*ssa.Function
	want := func(p *ssa.Package) bool {
		if p == nil {
			return false
		}
		if len(rels) == 0 {
			return strings.HasPrefix(p.Pkg.Path(), modPath)
		}
		for _, r := range rels {
			full := modPath
			if r != "" {
				full += "/" + r
			}
			if strings.HasSuffix(r, "/...") {
				if strings.HasPrefix(p.Pkg.Path(), modPath+"/"+strings.TrimSuffix(r, "/...")) {
					return true
				}
			} else if p.Pkg.Path() == full {
				return true
			}
		}
		return false
	}
	var addAnon func(f *ssa.Function)
	addAnon = func(f *ssa.Function) {
		out = append(out, f)
		for _, a := range f.AnonFuncs {
			addAnon(a)
		}
	}
	for _, sp := range c.SSA {
		if !want(sp) {
			continue
		}
		for _, m := range sp.Members {
			switch m := m.(type) {
			case *ssa.Function:
				if m.Blocks != nil && m.Synthetic == "" {
					addAnon(m)
				}
			case *ssa.Type:
				if n, ok := m.Type().(*types.Named); ok {
					for _, f := range c.methodsOf(n) {
						addAnon(f)
					}
				}
			}
		}
	}
	sort.Slice(out, func(i, j int) bool {
		if out[i].String() != out[j].String() {
			return out[i].String() < out[j].String()
		}
		return out[i].Pos() < out[j].Pos()
	})
	return out
}

// funcDecl finds the AST declaration of a source function.
func (c *Ctx) funcDecl(fn *ssa.Function) *ast.FuncDecl {
	if fn == nil {
		return nil
	}
	if d, ok := fn.Syntax().(*ast.FuncDecl); ok {
		return d
	}
	return nil
}

// typesInfo returns the types.Info holding the given function's package.
func (c *Ctx) infoOf(fn *ssa.Function) *types.Info {
	for fn.Parent() != nil {
		fn = fn.Parent()
	}
	if fn.Pkg == nil {
		return nil
	}
	if p := c.ByPath[fn.Pkg.Pkg.Path()]; p != nil {
		return p.TypesInfo
	}
	return nil
}

// ---- known findings --------------------------------------------------------

type KnownFinding struct {
	Property   string   `json:"property"`
	Properties []string `json:"properties,omitempty"` // further properties served by the same rule and construct
	Rule       string   `json:"rule"`
	Construct  string   `json:"construct"`
	Status     string   `json:"status"` // "known" | "fixed"
	Commit     string   `json:"commit,omitempty"`
	Fails      string   `json:"fails"`
	Why        string   `json:"why_not_repaired,omitempty"`
}

func loadKnown(path string) ([]KnownFinding, error) {
	b, err := os.ReadFile(path)
	if err != nil {
		return nil, err
	}
	var f struct {
		Findings []KnownFinding `json:"findings"`
	}
	if err := json.Unmarshal(b, &f); err != nil {
		return nil, err
	}
	return f.Findings, nil
}

// ---- report ------------------------------------------------------------

type Evidence struct {
	PropertyID  string         `json:"property_id"`
	Tier        string         `json:"tier"`
	Seed        int            `json:"seed"`
	Level       string         `json:"level"`
	Coverage    map[string]any `json:"coverage"`
	Assumptions []string       `json:"assumptions"`
	WallS       float64        `json:"wall_s"`
	Violations  int            `json:"violations"`
}

func verifDir() string {
	if d := os.Getenv("VERIF_DIR"); d != "" {
		return d
	}
	if exe, err := os.Executable(); err == nil {
		d := filepath.Dir(filepath.Dir(exe))
		if _, err := os.Stat(filepath.Join(d, "known_findings.json")); err == nil {
			return d
		}
	}
	return "/verif"
}

// Finish applies known findings, prints the report, writes evidence and returns the exit code.
func (c *Ctx) Finish(prop *Property, start time.Time, seed int, extra map[string]any) int {
	known, kerr := loadKnown(filepath.Join(verifDir(), "known_findings.json"))
	if kerr != nil {
		fmt.Printf("bwcheck: cannot read known_findings.json: %v\n", kerr)
		return 2
	}
	// de-duplicate obligations by rule+key (keep the worst verdict)
	rank := map[string]int{Info: 0, Proved: 1, Known: 2, Undecided: 3, Violated: 4}
	seen := map[string]int{}
	var obls []Obligation
	for _, o := range c.Obls {
		k := o.Rule + "|" + o.Key
		if i, ok := seen[k]; ok {
			if rank[o.Verdict] > rank[obls[i].Verdict] {
				obls[i] = o
			}
			continue
		}
		seen[k] = len(obls)
		obls = append(obls, o)
	}
	usedKnown := map[int]bool{}
	for i := range obls {
		o := &obls[i]
		if o.Verdict != Violated {
			continue
		}
		for ki, k := range known {
			applies := k.Property == prop.ID
			for _, p2 := range k.Properties {
				if p2 == prop.ID {
					applies = true
				}
			}
			if k.Status == "known" && k.Rule == o.Rule && k.Construct == o.Key && applies {
				o.Verdict = Known
				o.Fact += " [known finding: " + k.Fails + "]"
				usedKnown[ki] = true
			}
		}
	}
	// rule minima
	for id, rs := range c.RuleStats {
		_ = id
		rs.Instances, rs.Violated, rs.Known, rs.Undecided = 0, 0, 0, 0
	}
	for _, o := range obls {
		rs := c.RuleStats[o.Rule]
		if rs == nil {
			rs = &RuleStat{Rule: o.Rule}
			c.RuleStats[o.Rule] = rs
		}
		if o.Verdict != Info {
			rs.Instances++
		}
		switch o.Verdict {
		case Violated:
			rs.Violated++
		case Known:
			rs.Known++
		case Undecided:
			rs.Undecided++
		}
	}
	var ruleIDs []string
	for id := range c.RuleStats {
		ruleIDs = append(ruleIDs, id)
	}
	sort.Strings(ruleIDs)
	for _, id := range ruleIDs {
		rs := c.RuleStats[id]
		if rs.Instances < rs.Min {
			obls = append(obls, Obligation{Rule: id, Key: "instance-count", Verdict: Undecided, Nontrivial: true,
				Fact: fmt.Sprintf("rule matched %d instances, fewer than the %d confirmed by hand on the reference tree: some construct the rule is anchored in no longer has the shape the rule recognises, so the property is not shown to hold", rs.Instances, rs.Min)})
			rs.Undecided++
		}
	}

	fmt.Printf("bwcheck property=%s tier=%s repo=%s packages=%d(module %d)\n", prop.ID, c.Tier, c.Repo, c.AllPkgs, len(c.Pkgs))
	for _, id := range ruleIDs {
		rs := c.RuleStats[id]
		fmt.Printf("  rule %-4s instances=%-4d min=%-4d violated=%d known=%d undecided=%d  %s\n", id, rs.Instances, rs.Min, rs.Violated, rs.Known, rs.Undecided, rs.Statement)
	}
	replayDir := filepath.Join(verifDir(), "evidence", "replay")
	os.MkdirAll(replayDir, 0o755)
	// remove stale replay files of this property
	if old, _ := filepath.Glob(filepath.Join(replayDir, prop.ID+"-*.json")); old != nil {
		for _, f := range old {
			os.Remove(f)
		}
	}
	nviol, nund, nknown, nproved, nnontriv := 0, 0, 0, 0, 0
	distinct := map[string]bool{}
	for _, o := range obls {
		switch o.Verdict {
		case Known:
			nknown++
			fmt.Printf("KNOWN-FINDING: property=%s rule=%s construct=%q %s %s\n", prop.ID, o.Rule, o.Key, o.Pos, o.Fact)
		case Violated, Undecided:
			kind := "violation"
			if o.Verdict == Undecided {
				kind = "undecided"
				nund++
			} else {
				nviol++
			}
			rp := filepath.Join(replayDir, fmt.Sprintf("%s-%s-%s.json", prop.ID, o.Rule, sanitize(o.Key)))
			b, _ := json.MarshalIndent(map[string]any{"property": prop.ID, "rule": o.Rule, "construct": o.Key, "pos": o.Pos, "kind": kind, "fact": o.Fact,
				"replay": fmt.Sprintf("bwcheck replay %s", rp)}, "", " ")
			os.WriteFile(rp, b, 0o644)
			fmt.Printf("VIOLATION property=%s replay=%s\n", prop.ID, rp)
			fmt.Printf("  %s rule=%s kind=%s construct=%q because %s\n", o.Pos, o.Rule, kind, o.Key, o.Fact)
		case Proved:
			nproved++
		}
		if verbose && (o.Verdict == Proved || o.Verdict == Info) {
			fmt.Printf("  [%s] %s %s %q: %s\n", o.Verdict, o.Rule, o.Pos, o.Key, o.Fact)
		}
		if o.Nontrivial && o.Verdict != Info {
			if !distinct[o.Rule+"|"+o.Key] {
				distinct[o.Rule+"|"+o.Key] = true
				nnontriv++
			}
		}
	}
	// evidence
	samples := []Obligation{}
	perRule := map[string]int{}
	for _, o := range obls {
		if o.Verdict == Info {
			continue
		}
		if perRule[o.Rule] < 3 || o.Verdict != Proved {
			samples = append(samples, o)
			perRule[o.Rule]++
		}
		if len(samples) >= 60 {
			break
		}
	}
	var infos []Obligation
	for _, o := range obls {
		if o.Verdict == Info && len(infos) < 40 {
			infos = append(infos, o)
		}
	}
	var rstats []*RuleStat
	for _, id := range ruleIDs {
		rstats = append(rstats, c.RuleStats[id])
	}
	var fa []string
	for f := range c.funcsAnalysed {
		fa = append(fa, f)
	}
	sort.Strings(fa)
	nobl := nviol + nund + nknown + nproved
	cov := map[string]any{
		"explanation":         prop.Explanation,
		"rule":                "one obligation per (rule, construct) found by resolving the rule's anchors through go/types and go/ssa on /repo's current tree; an obligation is non-trivial when discharging it needed a path, dataflow, dominance or table-comparison argument (not mere absence of the construct); obligations are distinct by rule+construct key",
		"obligations":         nobl,
		"discharged":          nproved,
		"known_findings":      nknown,
		"undecided":           nund,
		"evaluations":         nobl,
		"distinct_nontrivial": nnontriv,
		"samples":             samples,
		"rules":               rstats,
		"informational":       infos,
		"functions_analysed":  len(fa),
		"functions":           fa,
		"packages_loaded":     c.AllPkgs,
		"module_packages":     len(c.Pkgs),
		"checker_cmd":         fmt.Sprintf("bin/bwcheck check -property %s -tier %s", prop.ID, c.Tier),
		"trusted_base":        prop.Trusted,
		"not_decided":         prop.NotDecided,
		"exhaustive":          false,
	}
	for k, v := range extra {
		cov[k] = v
	}
	ev := Evidence{PropertyID: prop.ID, Tier: c.Tier, Seed: seed, Level: "other", Coverage: cov,
		Assumptions: prop.Assumptions, WallS: time.Since(start).Seconds(), Violations: nviol + nund}
	b, _ := json.MarshalIndent(ev, "", " ")
	evp := filepath.Join(verifDir(), "evidence", prop.ID+".json")
	if err := os.WriteFile(evp, append(b, '\n'), 0o644); err != nil {
		fmt.Printf("bwcheck: cannot write evidence: %v\n", err)
		return 2
	}
	fmt.Printf("summary property=%s obligations=%d proved=%d known=%d violated=%d undecided=%d nontrivial=%d functions=%d wall=%.1fs evidence=%s\n",
		prop.ID, nobl, nproved, nknown, nviol, nund, nnontriv, len(fa), time.Since(start).Seconds(), evp)
	if nviol+nund > 0 {
		return 1
	}
	return 0
}

func sanitize(s string) string {
	var b strings.Builder
	for _, r := range s {
		switch {
		case r >= 'a' && r <= 'z', r >= 'A' && r <= 'Z', r >= '0' && r <= '9', r == '.', r == '_':
			b.WriteRune(r)
		default:
			b.WriteByte('-')
		}
		if b.Len() > 80 {
			break
		}
	}
	return b.String()
}
