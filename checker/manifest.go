package main

import (
	"encoding/json"
	"fmt"
	"os"
	"sort"
)

// notApplicable lists the properties that are not claimed, each with its reason.
var notApplicable = map[string]string{}

const envPrefix = ". scripts/env.sh; "

func writeManifest() {
	type level struct {
		Category  string `json:"category"`
		Text      string `json:"text"`
		DesignRef string `json:"design_ref"`
	}
	type check struct {
		PropertyID string `json:"property_id"`
		Quick      string `json:"quick_cmd"`
		Thorough   string `json:"thorough_cmd"`
		Evidence   string `json:"evidence_file"`
		Replay     string `json:"replay_cmd_template"`
		Engine     string `json:"engine"`
		Level      level  `json:"level_claimed"`
		Note       string `json:"level_note"`
		Technique  string `json:"technique"`
	}
	var ids []string
	for id := range properties {
		ids = append(ids, id)
	}
	sort.Strings(ids)
	var checks []check
	for _, id := range ids {
		p := properties[id]
		checks = append(checks, check{
			PropertyID: id,
			Quick:      "bin/bwcheck check -property " + id + " -tier quick",
			Thorough:   "scripts/thorough.sh " + id,
			Evidence:   "/verif/evidence/" + id + ".json",
			Replay:     "bin/bwcheck replay {path}",
			Engine:     "bwcheck",
			Level: level{Category: "other",
				Text:      "Static analysis: structural necessary conditions of the property are decided for all inputs/paths on /repo's current source (go/types + go/ssa + dominators/path-state dataflow + table comparison). " + p.Level + "; plus the necessary conditions added after each seeded round (rule list with statements and instance counts in the evidence file, catalogue in DESIGN.md §0.1). The behaviour itself is not proved; the clauses not decided are listed in the evidence (not_decided) and DESIGN.md.",
				DesignRef: "DESIGN.md §4 " + id},
			Note:      p.Note,
			Technique: p.Technique,
		})
	}
	na := []map[string]string{}
	var naIDs []string
	for id := range notApplicable {
		naIDs = append(naIDs, id)
	}
	sort.Strings(naIDs)
	for _, id := range naIDs {
		na = append(na, map[string]string{"property_id": id, "reason": notApplicable[id]})
	}
	m := map[string]any{
		"version":   1,
		"setup_cmd": "scripts/build.sh",
		"hooks": map[string]any{
			"guard":            "verif",
			"enable":           "none needed: every check is a static analysis of /repo's working tree; no hook or instrumentation commit exists",
			"baseline_off_cmd": "scripts/repo_test.sh /repo",
			"source_commits":   []string{},
			"add_only":         true,
		},
		"engines": []map[string]any{{
			"name": "bwcheck", "path": "/verif/checker",
			"serves_properties": ids,
			"kind_free_text":    "repository-specific static analyser (Go, golang.org/x/tools v0.50.0 vendored: go/packages, go/ssa, own dominator/post-dominator, edge-fact, provenance and path-state engines); never executes badwolf code",
		}},
		"checks":         checks,
		"not_applicable": na,
		"notes":          "All claims are at level 'other': each check decides structural necessary conditions by static analysis and lists what it does not decide. known_findings.json holds genuine defects recorded rather than repaired and the fix: commits. scripts/selftest.py validates the checker both ways on seeded variants (not part of any verdict).",
	}
	b, _ := json.MarshalIndent(m, "", " ")
	fmt.Println(string(b))
	_ = os.Stdout
}
