package main

// bceSite is one bounds check the Go compiler could not prove (rule L1, stage 1).
type bceSite struct {
	File string
	Line int
	Col  int
	Kind string // IsInBounds | IsSliceInBounds
}
