package main

import (
	"fmt"
	"go/constant"
	"go/token"
	"regexp"
	"sort"
	"strings"

	"golang.org/x/tools/go/ssa"
)

// constStringArgs lists the constant string arguments (by index) of calls to pkg.fn in f.
func (c *Ctx) constStringArgs(f *ssa.Function, pkg, fn string, idx int) []string {
	var out []string
	seen := map[*ssa.Function]bool{}
	var scan func(root *ssa.Function, d int)
	scan = func(root *ssa.Function, d int) {
		if seen[root] {
			return
		}
		seen[root] = true
		withClosures(root, func(g *ssa.Function) {
			allInstrs(g, func(in ssa.Instruction) {
				call, ok := in.(*ssa.Call)
				if !ok {
					return
				}
				if !isCallTo(&call.Call, pkg, fn) {
					// the work may have been moved into a same-package helper
					if callee := helperCallee(g, &call.Call); callee != nil && callee.Parent() == nil && d < 2 {
						intoHelper(callee, &call.Call, func() { scan(callee, d+1) })
					}
					return
				}
				args := call.Call.Args
				if idx < len(args) {
					if k, ok := resolveParam(args[idx]).(*ssa.Const); ok && k.Value != nil && k.Value.Kind() == constant.String {
						out = append(out, constant.StringVal(k.Value))
					}
				}
			})
		})
	}
	scan(f, 0)
	return out
}

func ruleT1(c *Ctx) {
	c.Rule("T1", "printer and parser of one text format use the same tables: one time layout for every Format and Parse of anchors and bounds; the predicate id is written with %q and read with strconv.Unquote; the literal printer writes the separator the literal parser searches for; the node printer's '<' '>' are what node.Parse looks for; the separator Triple.String writes matches the split patterns of triple.Parse; WriteGraph ends a triple with the terminator the reader's scanner splits on", 8)
	// (a) time layout: every Format/Parse of an anchor in the value packages and in the hooks uses one layout
	layouts := map[string][]string{}
	for _, fn := range c.srcFuncs("triple/predicate", "bql/semantic", "bql/table", "storage") {
		if fn.Parent() != nil {
			continue
		}
		for _, l := range c.constStringArgs(fn, "time", "Format", 1) {
			layouts[l] = append(layouts[l], funcName(fn)+" Format")
		}
		for _, l := range c.constStringArgs(fn, "time", "Parse", 0) {
			layouts[l] = append(layouts[l], funcName(fn)+" Parse")
		}
	}
	var ls []string
	nUses := 0
	for l, u := range layouts {
		ls = append(ls, l)
		nUses += len(u)
	}
	sort.Strings(ls)
	switch {
	case len(ls) == 0:
		c.undecided("time layout", token.NoPos, "no constant layout found")
	case len(ls) > 1:
		var detail []string
		for _, l := range ls {
			detail = append(detail, fmt.Sprintf("%q in %v", l, uniq(layouts[l])))
		}
		c.bad("time layout", token.NoPos, "anchors are printed and parsed with different layouts: %s — a printed predicate or bound does not parse back to the same instant", strings.Join(detail, "; "))
	default:
		c.ok("time layout", token.NoPos, "one layout %q at %d Format/Parse sites", ls[0], nUses)
	}
	// the predicate printer and parser both use it
	pStr := c.mustFunc("triple/predicate", "Predicate.String")
	pParse := c.mustFunc("triple/predicate", "Parse")
	if pStr != nil && pParse != nil {
		f, p := c.constStringArgs(pStr, "time", "Format", 1), c.constStringArgs(pParse, "time", "Parse", 0)
		c.check(len(f) == 1 && len(p) == 1 && f[0] == p[0], "predicate anchor layout printer = parser", pStr.Pos(), "same layout constant", fmt.Sprintf("Predicate.String formats with %v but predicate.Parse parses with %v", f, p))
		// (b) %q <-> Unquote
		fm := c.constStringArgs(pStr, "fmt", "Sprintf", 0)
		quoted := len(fm) > 0
		for _, s := range fm {
			if !strings.HasPrefix(s, "%q@[") {
				quoted = false
			}
		}
		unq := false
		allInstrs(pParse, func(in ssa.Instruction) {
			if call, ok := in.(*ssa.Call); ok && isCallTo(&call.Call, "strconv", "Unquote") {
				unq = true
			}
		})
		c.check(quoted && unq, "predicate id quoting printer = parser", pStr.Pos(), "%q paired with strconv.Unquote", "the predicate id is not written with %q while predicate.Parse unquotes it (or the other way round): ids with quotes or escapes do not round-trip")
		// the anchor delimiter the parser searches for occurs in the printer's format
		idxArgs := append(c.constStringArgs(pParse, "strings", "Index", 1), c.constStringArgs(pParse, "strings", "LastIndex", 1)...)
		okDelim := len(idxArgs) > 0
		for _, d := range idxArgs {
			for _, s := range fm {
				if !strings.Contains(strings.Replace(s, "%q", `""`, 1), d) {
					okDelim = false
				}
			}
		}
		c.check(okDelim, "predicate anchor delimiter printer = parser", pParse.Pos(), fmt.Sprintf("parser searches %q, which the printer writes", idxArgs), fmt.Sprintf("predicate.Parse searches for %q, which Predicate.String %v does not produce", idxArgs, fm))
	}
	// (c) literal separator
	lStr := c.mustFunc("triple/literal", "Literal.String")
	lParse := c.mustFunc("triple/literal", "unboundBuilder.Parse")
	if lStr != nil && lParse != nil {
		fm := c.constStringArgs(lStr, "fmt", "Sprintf", 0)
		seps := append(c.constStringArgs(lParse, "strings", "Index", 1), c.constStringArgs(lParse, "strings", "LastIndex", 1)...)
		ok := len(fm) == 1 && len(seps) >= 1
		for _, s := range seps {
			if len(fm) == 1 && !strings.Contains(fm[0], s) {
				ok = false
			}
		}
		c.check(ok, "literal separator printer = parser", lStr.Pos(), fmt.Sprintf("printer format %q contains the separator %q the parser searches", fm, seps), fmt.Sprintf("Literal.String writes %q but the parser looks for %q", fm, seps))
	}
	// (c2) the closing delimiter of a quoted part is the last one: the id of a predicate is printed with %q and the
	// text of a literal as it stands, so either may contain the delimiter itself; what follows the real delimiter
	// (anchor, type name) never does — the parser has to search from the right
	for _, pf := range []struct{ rel, fn, what string }{
		{"triple/predicate", "Parse", "predicate id"},
		{"triple/literal", "unboundBuilder.Parse", "literal text"},
	} {
		fn := c.lookupFunc(pf.rel, pf.fn)
		if fn == nil {
			continue
		}
		var first []string
		walkHelpers(fn, 2, func(_ *ssa.Function, in ssa.Instruction, _ ssa.Instruction) {
			call, ok := in.(*ssa.Call)
			if !ok || !isCallTo(&call.Call, "strings", "Index") || len(call.Call.Args) < 2 {
				return
			}
			if k, ok := resolveParam(call.Call.Args[1]).(*ssa.Const); ok && k.Value != nil && k.Value.Kind() == constant.String && strings.HasPrefix(constant.StringVal(k.Value), "\"") {
				first = append(first, fmt.Sprintf("%q at %s", constant.StringVal(k.Value), c.pos(in.Pos())))
			}
		})
		c.check(len(first) == 0, funcName(fn)+" finds the closing delimiter from the right", fn.Pos(), "no left-to-right search for a delimiter that starts with the closing quote", fmt.Sprintf("the closing delimiter is located with strings.Index (%s), i.e. at its first occurrence: a %s that contains the delimiter is printed but does not parse back", strings.Join(first, ", "), pf.what))
	}
	// (d) node delimiters
	nStr := c.mustFunc("triple/node", "Node.String")
	nParse := c.mustFunc("triple/node", "Parse")
	if nStr != nil && nParse != nil {
		fm := c.constStringArgs(nStr, "fmt", "Sprintf", 0)
		seps := append(c.constStringArgs(nParse, "strings", "Index", 1), c.constStringArgs(nParse, "strings", "LastIndex", 1)...)
		ok := len(fm) >= 1 && len(seps) >= 1
		for _, f := range fm {
			for _, s := range seps {
				if !strings.Contains(f, s) {
					ok = false
				}
			}
			if !strings.HasSuffix(f, ">") {
				ok = false
			}
		}
		c.check(ok, "node delimiters printer = parser", nStr.Pos(), fmt.Sprintf("printer %q, parser searches %q and tests the final '>'", fm, seps), fmt.Sprintf("Node.String writes %q but node.Parse looks for %q and a final '>'", fm, seps))
	}
	// (e) triple separators vs split patterns
	tStr := c.mustFunc("triple", "Triple.String")
	if tStr != nil {
		fm := c.constStringArgs(tStr, "fmt", "Sprintf", 0)
		// the patterns compiled in package triple
		var pats []string
		for _, fn := range c.srcFuncs("triple") {
			pats = append(pats, c.constStringArgs(fn, "regexp", "MustCompile", 0)...)
		}
		ok := len(fm) == 1 && len(pats) >= 2
		detail := ""
		if ok {
			parts := strings.Split(fm[0], "%s")
			// parts[1] separates subject and predicate, parts[2] predicate and object
			if len(parts) != 4 {
				ok = false
			} else {
				for _, sep := range parts[1:3] {
					matched := 0
					for _, p := range pats {
						re, err := regexp.Compile(p)
						if err != nil {
							continue
						}
						// the pattern describes <end of previous part><separator><start of next part>
						for _, probe := range []string{">" + sep + "\"", "]" + sep + "/", "]" + sep + "\""} {
							if re.MatchString(probe) {
								matched++
								break
							}
						}
					}
					if matched == 0 {
						ok = false
						detail = fmt.Sprintf("separator %q written by Triple.String is matched by none of the split patterns %q", sep, pats)
					}
					// ... and the separator is required: a pattern that also matches the two delimiters with nothing
					// between them finds a "split point" inside an id such as a[0]/b or x>"y
					for _, p := range pats {
						re, err := regexp.Compile(p)
						if err != nil {
							continue
						}
						for _, probe := range []string{">\"", "]/", "]\""} {
							if re.MatchString(probe) {
								ok = false
								detail = fmt.Sprintf("split pattern %q matches %q, i.e. without the separator %q that Triple.String writes: ids containing that pair of characters are split in the wrong place", p, probe, sep)
							}
						}
					}
				}
			}
		}
		c.check(ok, "triple separators printer = parser", tStr.Pos(), fmt.Sprintf("format %q; split patterns %q accept its separators", fm, pats), "Triple.String and triple.Parse disagree on the separators: "+detail)
	}
	// (f) line terminator
	wg := c.mustFunc("io", "WriteGraph")
	rg := c.mustFunc("io", "ReadIntoGraph")
	if wg != nil && rg != nil {
		// every piece of text WriteGraph hands to the writer ends with a newline
		var endsNL func(v ssa.Value, d int) bool
		endsNL = func(v ssa.Value, d int) bool {
			if d > 4 {
				return false
			}
			switch x := v.(type) {
			case *ssa.Const:
				return x.Value != nil && x.Value.Kind() == constant.String && strings.HasSuffix(constant.StringVal(x.Value), "\n")
			case *ssa.BinOp:
				return x.Op == token.ADD && endsNL(x.Y, d+1)
			case *ssa.Call:
				if isCallTo(&x.Call, "fmt", "Sprintf") {
					return endsNL(x.Call.Args[0], d+1)
				}
				return isCallTo(&x.Call, "fmt", "Sprintln")
			}
			return false
		}
		nOut, okW := 0, true
		walkHelpers(wg, 2, func(_ *ssa.Function, in ssa.Instruction, _ ssa.Instruction) {
			call, ok := in.(*ssa.Call)
			if !ok {
				return
			}
			switch {
			case isCallTo(&call.Call, "io", "WriteString"):
				nOut++
				okW = okW && endsNL(call.Call.Args[1], 0)
			case isCallTo(&call.Call, "fmt", "Fprintf"):
				nOut++
				okW = okW && endsNL(call.Call.Args[1], 0)
			case isCallTo(&call.Call, "fmt", "Fprintln"):
				nOut++
			case isCallTo(&call.Call, "fmt", "Fprint"):
				nOut++
				okW = false
			}
		})
		okW = okW && nOut >= 1
		okR := false
		allInstrs(rg, func(in ssa.Instruction) {
			if call, ok := in.(*ssa.Call); ok && isCallTo(&call.Call, "bufio", "Split") {
				if f, ok := call.Call.Args[1].(*ssa.Function); ok && f.Name() == "ScanLines" {
					okR = true
				}
				if ct, ok := call.Call.Args[1].(*ssa.ChangeType); ok {
					if f, ok := ct.X.(*ssa.Function); ok && f.Name() == "ScanLines" {
						okR = true
					}
				}
			}
		})
		c.check(okW && okR, "graph text line terminator writer = reader", wg.Pos(), "each triple ends with \\n; the reader splits with bufio.ScanLines", "WriteGraph's line terminator and ReadIntoGraph's scanner split function no longer agree")
	}
}
