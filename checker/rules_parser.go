package main

import (
	"fmt"
	"go/constant"
	"go/token"
	"go/types"
	"regexp"
	"sort"
	"strings"

	"golang.org/x/tools/go/ssa"
)

// ---- G4 parse consumes all ------------------------------------------------------------

func (c *Ctx) tokenConst(name string) (int64, bool) {
	lp := c.pkg("bql/lexer")
	if lp == nil {
		return 0, false
	}
	k, ok := lp.Types.Scope().Lookup(name).(*types.Const)
	if !ok {
		return 0, false
	}
	return constant.Int64Val(k.Val())
}

func ruleG4(c *Ctx) {
	c.Rule("G4", "Parser.Parse reports success only after testing that the current token is end of input: every return with a nil error is dominated by the true edge of llk.CanAccept(lexer.ItemEOF)", 1)
	fn := c.mustFunc("bql/grammar", "Parser.Parse")
	if fn == nil {
		return
	}
	eof, ok := c.tokenConst("ItemEOF")
	if !ok {
		c.undecided("lexer.ItemEOF", token.NoPos, "constant not found")
		return
	}
	fi := c.fi(fn)
	n := 0
	for _, r := range c.returnsOf(fn) {
		rv := resultValues(r)
		errv := rv[len(rv)-1]
		if !c.mayBeNilError(fn, errv, r) {
			continue
		}
		n++
		guarded := false
		for _, ft := range fi.factsAt(r.Block()) {
			call, ok := ft.Cond.(*ssa.Call)
			if !ok || call.Call.StaticCallee() == nil || call.Call.StaticCallee().Name() != "CanAccept" || len(call.Call.Args) != 2 {
				continue
			}
			if v, ok := constInt(call.Call.Args[1]); ok && v == eof && ft.Truth {
				guarded = true
			}
		}
		key := fmt.Sprintf("(*grammar.Parser).Parse success return #%d", n)
		if guarded {
			c.ok(key, r.Pos(), "dominated by the true edge of CanAccept(ItemEOF)")
		} else {
			c.bad(key, r.Pos(), "a success return at %s is not dominated by an end-of-input test: trailing tokens after a complete statement are silently accepted", c.pos(r.Pos()))
		}
	}
	if n == 0 {
		c.undecided("(*grammar.Parser).Parse success return", fn.Pos(), "no return with a possibly-nil error found")
	}
}

// mayBeNilError: the error operand of a return can be nil on this path.
func (c *Ctx) mayBeNilError(fn *ssa.Function, v ssa.Value, r *ssa.Return) bool {
	if isNilConst(v) {
		return true
	}
	switch x := v.(type) {
	case *ssa.Call, *ssa.MakeInterface:
		_ = x
		// a freshly built error (fmt.Errorf, errors.New, &T{}) is non-nil; a forwarded call result may be nil
		if call, ok := v.(*ssa.Call); ok {
			if isCallTo(&call.Call, "fmt", "Errorf") || isCallTo(&call.Call, "errors", "New") {
				return false
			}
			return true
		}
		return false
	}
	// a value proven non-nil by a dominating test
	fi := c.fi(fn)
	for _, ft := range fi.factsAt(r.Block()) {
		if bo, ok := ft.Cond.(*ssa.BinOp); ok && (bo.Op == token.NEQ || bo.Op == token.EQL) {
			var other ssa.Value
			if bo.X == v || sameCellLoad(bo.X, v) {
				other = bo.Y
			} else if bo.Y == v || sameCellLoad(bo.Y, v) {
				other = bo.X
			}
			if other != nil && isNilConst(other) {
				if (bo.Op == token.NEQ) == ft.Truth {
					return false
				}
				return true
			}
		}
	}
	return true
}

// sameCellLoad: a and b are both loads of the same local cell (a captured or address-taken variable).
func sameCellLoad(a, b ssa.Value) bool {
	ua, ok1 := a.(*ssa.UnOp)
	ub, ok2 := b.(*ssa.UnOp)
	if !ok1 || !ok2 || ua.Op != token.MUL || ub.Op != token.MUL {
		return false
	}
	if ua.X != ub.X {
		return false
	}
	switch ua.X.(type) {
	case *ssa.Alloc, *ssa.FreeVar:
		return true
	}
	return false
}

// ---- G6 hooks can only reject --------------------------------------------------------------

func ruleG6(c *Ctx) {
	c.Rule("G6", "semantic hooks can reject a statement but never make the parser accept more: every call through a Clause hook field in package grammar discards the returned hook and uses the error only as `if err != nil { return false, err }`", 3)
	n := 0
	for _, fn := range c.srcFuncs("bql/grammar") {
		fi := c.fi(fn)
		allInstrs(fn, func(in ssa.Instruction) {
			call, ok := in.(*ssa.Call)
			if !ok || call.Call.IsInvoke() || call.Call.StaticCallee() != nil {
				return
			}
			// dynamic call through a field of Clause
			t := c.term(call.Call.Value)
			if !isNamed(call.Call.Value.Type(), modPath+"/bql/semantic", "ClauseHook") && !isNamed(call.Call.Value.Type(), modPath+"/bql/semantic", "ElementHook") {
				return
			}
			n++
			key := fmt.Sprintf("%s calls hook %s", funcName(fn), t[strings.LastIndex(t, ".")+1:])
			var probs []string
			for _, ref := range *call.Referrers() {
				ex, ok := ref.(*ssa.Extract)
				if !ok {
					probs = append(probs, "hook result used as a tuple")
					continue
				}
				if ex.Index == 0 {
					if len(*ex.Referrers()) > 0 {
						probs = append(probs, "the hook value returned by the hook is used")
					}
					continue
				}
				// error
				for _, r2 := range *ex.Referrers() {
					switch y := r2.(type) {
					case *ssa.BinOp:
						if !(y.Op == token.NEQ && isNilConst(y.Y)) && !(y.Op == token.EQL && isNilConst(y.Y)) {
							probs = append(probs, "hook error compared with something other than nil")
						}
					case *ssa.Return, *ssa.Store, *ssa.Phi, *ssa.MakeInterface:
					case *ssa.Call:
						// passed to fmt.Errorf and similar: fine
					default:
						probs = append(probs, fmt.Sprintf("hook error used by %T", r2))
					}
				}
				// every return dominated by the err != nil edge returns false
				for _, r := range c.returnsOf(fn) {
					for _, ft := range fi.factsAt(r.Block()) {
						bo, ok := ft.Cond.(*ssa.BinOp)
						if !ok || bo.X != ssa.Value(ex) || !isNilConst(bo.Y) {
							continue
						}
						errNonNil := (bo.Op == token.NEQ) == ft.Truth
						if !errNonNil {
							continue
						}
						rv := resultValues(r)
						if k, ok := rv[0].(*ssa.Const); !ok || k.Value == nil || k.Value.Kind() != constant.Bool || constant.BoolVal(k.Value) {
							probs = append(probs, fmt.Sprintf("return at %s on the hook-error edge does not return false", c.pos(r.Pos())))
						}
						if isNilConst(rv[len(rv)-1]) {
							probs = append(probs, fmt.Sprintf("return at %s on the hook-error edge drops the error", c.pos(r.Pos())))
						}
					}
				}
			}
			if len(probs) > 0 {
				c.bad(key, in.Pos(), "%s", strings.Join(uniq(probs), "; "))
			} else {
				c.ok(key, in.Pos(), "returned hook discarded; error only tested against nil and the non-nil edge returns (false, err)")
			}
		})
	}
	if n == 0 {
		c.undecided("hook calls", token.NoPos, "no call through a hook field found in package grammar")
	}
}

// ---- G7 LLk window -----------------------------------------------------------------------

type winState struct{ resliced, appended uint8 }

func ruleG7(c *Ctx) {
	c.Rule("G7", "the look-ahead window keeps its size: appendNextToken appends exactly one token on every path; Consume drops one token and appends one, or does neither; NewLLk fills k+1 tokens", 3)
	app := c.mustFunc("bql/grammar", "appendNextToken")
	cons := c.mustFunc("bql/grammar", "LLk.Consume")
	newl := c.mustFunc("bql/grammar", "NewLLk")
	if app == nil || cons == nil || newl == nil {
		return
	}
	isTknsStore := func(in ssa.Instruction) (bool, ssa.Value) {
		st, ok := in.(*ssa.Store)
		if !ok {
			return false, nil
		}
		fa, ok := st.Addr.(*ssa.FieldAddr)
		if !ok || !isNamed(fa.X.Type(), modPath+"/bql/grammar", "LLk") {
			return false, nil
		}
		if _, isSlice := st.Val.Type().Underlying().(*types.Slice); !isSlice {
			return false, nil
		}
		return true, st.Val
	}
	bump := func(x uint8) uint8 {
		if x < 3 {
			return x + 1
		}
		return x
	}
	// appendNextToken
	{
		tr := func(s winState, in ssa.Instruction) winState {
			if ok, v := isTknsStore(in); ok {
				if call, ok := v.(*ssa.Call); ok && isBuiltinCall(&call.Call, "append") && len(call.Call.Args) == 2 {
					// appended slice literal of one element
					s.appended = bump(s.appended)
				} else {
					s.resliced = bump(s.resliced)
				}
			}
			return s
		}
		at, _ := flow(c, app, winState{}, tr, nil)
		var bad []string
		for r, ss := range at {
			for s := range ss {
				if s.appended != 1 || s.resliced != 0 {
					bad = append(bad, fmt.Sprintf("return at %s reached with %d appends and %d other stores to the window", c.pos(r.Pos()), s.appended, s.resliced))
				}
			}
		}
		sort.Strings(bad)
		c.check(len(bad) == 0 && len(at) > 0, "grammar.appendNextToken appends exactly one token", app.Pos(), fmt.Sprintf("%d returns, one append on each path", len(at)), strings.Join(uniq(bad), "; "))
	}
	// Consume
	{
		tr := func(s winState, in ssa.Instruction) winState {
			if ok, v := isTknsStore(in); ok {
				if sl, ok := v.(*ssa.Slice); ok {
					lo, okc := constInt(sl.Low)
					if sl.Low != nil && okc && lo == 1 && sl.High == nil {
						s.resliced = bump(s.resliced)
					} else {
						s.resliced = 3
					}
				} else {
					s.resliced = 3
				}
			}
			if call, ok := in.(*ssa.Call); ok && call.Call.StaticCallee() == app {
				s.appended = bump(s.appended)
			}
			return s
		}
		at, _ := flow(c, cons, winState{}, tr, nil)
		var bad []string
		for r, ss := range at {
			for s := range ss {
				if !(s.appended == s.resliced && s.resliced <= 1) {
					bad = append(bad, fmt.Sprintf("return at %s reached after dropping %d and appending %d tokens", c.pos(r.Pos()), s.resliced, s.appended))
				}
				rv := resultValues(r)
				if k, ok := rv[0].(*ssa.Const); ok && k.Value != nil && k.Value.Kind() == constant.Bool {
					if constant.BoolVal(k.Value) != (s.resliced == 1) {
						bad = append(bad, fmt.Sprintf("return at %s reports %v but %d tokens were dropped", c.pos(r.Pos()), constant.BoolVal(k.Value), s.resliced))
					}
				}
			}
		}
		sort.Strings(bad)
		c.check(len(bad) == 0 && len(at) > 0, "(*grammar.LLk).Consume keeps the window size", cons.Pos(), fmt.Sprintf("%d returns: tkns[1:] and one appendNextToken together, or neither", len(at)), strings.Join(uniq(bad), "; "))
	}
	// NewLLk: a loop calling appendNextToken bounded by i < k+1
	{
		okLoop := false
		fi := c.fi(newl)
		allInstrs(newl, func(in ssa.Instruction) {
			call, ok := in.(*ssa.Call)
			if !ok || call.Call.StaticCallee() != app || !inLoop(fi, in.Block()) {
				return
			}
			// find the loop condition dominating the call
			for _, ft := range fi.factsAt(in.Block()) {
				bo, ok := ft.Cond.(*ssa.BinOp)
				if !ok || !ft.Truth {
					continue
				}
				t := c.term(bo)
				if (bo.Op == token.LSS && strings.Contains(t, "(param:k + 1)")) || (bo.Op == token.LEQ && strings.HasSuffix(t, "<= param:k)")) {
					okLoop = true
				}
			}
			// a rotated loop (for range k+1): the body is entered from the pre-test and from the back edge, each
			// under `… < k+1`
			b := in.Block()
			if len(b.Preds) >= 2 {
				all := true
				for _, p := range b.Preds {
					iff, ok := p.Instrs[len(p.Instrs)-1].(*ssa.If)
					if !ok || p.Succs[0] != b {
						all = false
						break
					}
					bo, ok := iff.Cond.(*ssa.BinOp)
					if !ok || bo.Op != token.LSS || c.term(bo.Y) != "(param:k + 1)" {
						all = false
					}
				}
				if all {
					okLoop = true
				}
			}
		})
		c.check(okLoop, "grammar.NewLLk fills k+1 tokens", newl.Pos(), "appendNextToken is called in a loop guarded by i < k+1", "NewLLk does not fill the window with k+1 tokens: Current/Peek can index past the window")
	}
}

// ---- G5 parser state inventory ----------------------------------------------------------------

// reviewedCells: persistent hook cells confirmed harmless by reading, one reason each.
var reviewedCells = map[string]string{
	"semantic.varAccumulator cell lastNopToken": "read only once the projection already has its binding (p.Binding != \"\"), i.e. after a token of this statement went through the hook; the binding token itself never reads it, and every token other than AS clears it",
}

// reviewedCellReadGuard: the dominating fact every read of a reviewed cell must have (the reason it is harmless).
var reviewedCellReadGuard = map[string]string{
	"semantic.varAccumulator cell lastNopToken": `\.Binding == ""\)=false`,
}

func ruleG5(c *Ctx) {
	c.Rule("G5", "inventory of state that outlives one Parse call: variables captured and assigned by hook closures, package-level variables written outside init, and parser/grammar fields written while parsing; each cell must be reviewed or is a violation (it lets an earlier statement influence a later one)", 5)
	cells := 0
	for _, fn := range c.srcFuncs("bql/semantic", "bql/grammar") {
		if fn.Parent() == nil {
			continue
		}
		// closures of hook type
		if !isNamed(fn.Type(), modPath+"/bql/semantic", "ClauseHook") && !isNamed(fn.Type(), modPath+"/bql/semantic", "ElementHook") {
			sig := fn.Signature
			if sig.Results().Len() != 2 || !(isNamed(sig.Results().At(0).Type(), modPath+"/bql/semantic", "ClauseHook") || isNamed(sig.Results().At(0).Type(), modPath+"/bql/semantic", "ElementHook")) {
				continue
			}
		}
		c.analysed(funcName(fn))
		for _, fv := range fn.FreeVars {
			stored := false
			var pos token.Pos
			withClosures(fn, func(f *ssa.Function) {
				allInstrs(f, func(in ssa.Instruction) {
					if st, ok := in.(*ssa.Store); ok && st.Addr == ssa.Value(fv) {
						stored = true
						pos = in.Pos()
					}
					// a captured map or slice that is filled, emptied or edited in place survives just the same
					isCell := func(v ssa.Value) bool {
						u, ok := v.(*ssa.UnOp)
						return ok && u.Op == token.MUL && u.X == ssa.Value(fv) && f == fn
					}
					switch x := in.(type) {
					case *ssa.MapUpdate:
						if isCell(x.Map) {
							stored, pos = true, in.Pos()
						}
					case *ssa.Call:
						if (isBuiltinCall(&x.Call, "delete") || isBuiltinCall(&x.Call, "clear")) && len(x.Call.Args) > 0 && isCell(x.Call.Args[0]) {
							stored, pos = true, in.Pos()
						}
					case *ssa.Store:
						if ia, ok := x.Addr.(*ssa.IndexAddr); ok && isCell(ia.X) {
							stored, pos = true, in.Pos()
						}
					}
				})
			})
			if !stored {
				continue
			}
			cells++
			key := fmt.Sprintf("%s cell %s", funcName(fn.Parent()), fv.Name())
			if why, ok := reviewedCells[key]; ok {
				// the review rests on where the cell is read: re-verify that
				need := reviewedCellReadGuard[key]
				okReads := true
				if need != "" {
					re := regexp.MustCompile(need)
					fi := c.fi(fn)
					allInstrs(fn, func(in ssa.Instruction) {
						u, isLoad := in.(*ssa.UnOp)
						if !isLoad || u.Op != token.MUL || u.X != ssa.Value(fv) {
							return
						}
						hit := false
						for _, ft := range fi.factsAt(in.Block()) {
							if re.MatchString(fmt.Sprintf("%s=%v", c.term(ft.Cond), ft.Truth)) {
								hit = true
							}
						}
						if !hit {
							okReads = false
						}
					})
				}
				if okReads {
					c.ok(key, pos, "reviewed: %s", why)
				} else {
					c.bad(key, pos, "the reviewed argument for %s (%s) no longer holds: the cell is now read on a path not guarded by %s, so a value left behind by an earlier (rejected) statement is observed", key, why, need)
				}
			} else {
				c.bad(key, pos, "hook closure of %s assigns captured variable %s, which survives until the next statement parsed with the same parser: an earlier (possibly rejected) statement can change the meaning of a later one", funcName(fn.Parent()), fv.Name())
			}
		}
	}
	// package-level variables written outside init in lexer/grammar/semantic
	for _, rel := range []string{"bql/lexer", "bql/grammar", "bql/semantic"} {
		for _, fn := range c.srcFuncs(rel) {
			top := fn
			for top.Parent() != nil {
				top = top.Parent()
			}
			if top.Name() == "init" || strings.HasPrefix(top.Name(), "init#") {
				continue
			}
			allInstrs(fn, func(in ssa.Instruction) {
				st, ok := in.(*ssa.Store)
				if !ok {
					return
				}
				var g *ssa.Global
				switch a := st.Addr.(type) {
				case *ssa.Global:
					g = a
				case *ssa.FieldAddr:
					if gg, ok := a.X.(*ssa.Global); ok {
						g = gg
					}
				case *ssa.IndexAddr:
					if gg, ok := a.X.(*ssa.Global); ok {
						g = gg
					}
				}
				if g == nil || g.Pkg == nil || !strings.HasPrefix(g.Pkg.Pkg.Path(), modPath) {
					return
				}
				cells++
				c.bad(fmt.Sprintf("%s writes package variable %s", funcName(fn), g.Name()), in.Pos(), "package-level state written while lexing/parsing")
			})
			// map updates on package-level maps
			allInstrs(fn, func(in ssa.Instruction) {
				mu, ok := in.(*ssa.MapUpdate)
				if !ok {
					return
				}
				if u, ok := mu.Map.(*ssa.UnOp); ok {
					if g, ok := u.X.(*ssa.Global); ok && g.Pkg != nil && strings.HasPrefix(g.Pkg.Pkg.Path(), modPath) {
						cells++
						c.bad(fmt.Sprintf("%s updates package map %s", funcName(fn), g.Name()), in.Pos(), "package-level map written while lexing/parsing")
					}
				}
			})
		}
	}
	// fields of Parser / Grammar / Clause / Element written from functions reachable from Parse (consume, expect and below, within package grammar)
	for _, name := range []string{"Parser.Parse", "Parser.consume", "Parser.expect"} {
		fn := c.lookupFunc("bql/grammar", name)
		if fn == nil {
			continue
		}
		// a container field filled through its methods (sync.Map.Store, map update) is state just the same
		walkHelpers(fn, 2, func(inFn *ssa.Function, in ssa.Instruction, _ ssa.Instruction) {
			var recv ssa.Value
			switch x := in.(type) {
			case *ssa.Call:
				if f := x.Call.StaticCallee(); f != nil && f.Signature.Recv() != nil && isNamed(f.Signature.Recv().Type(), "sync", "Map") && len(x.Call.Args) > 0 {
					switch f.Name() {
					case "Store", "LoadOrStore", "LoadAndDelete", "Delete", "Swap", "CompareAndSwap", "CompareAndDelete", "Clear":
						recv = x.Call.Args[0]
					}
				}
			case *ssa.MapUpdate:
				recv = x.Map
			}
			if recv == nil {
				return
			}
			b := baseOfAddrOrLoad(recv)
			if fa, ok := b.(*ssa.FieldAddr); ok {
				for _, tn := range []string{"Parser", "Clause", "Element", "LLk"} {
					if isNamed(derefType(fa.X.Type()), modPath+"/bql/grammar", tn) {
						if tn == "LLk" {
							continue // the look-ahead window is per input, not per parser
						}
						cells++
						c.bad(fmt.Sprintf("%s fills %s.%s", funcName(inFn), tn, fieldName(fa.X.Type(), fa.Field)), in.Pos(), "a container field of the parser is filled while parsing: what one statement left there (a memo, a fail-fast cache) decides how the next statement on the same parser is parsed")
					}
				}
			}
		})
		allInstrs(fn, func(in ssa.Instruction) {
			st, ok := in.(*ssa.Store)
			if !ok {
				return
			}
			if fa, ok := st.Addr.(*ssa.FieldAddr); ok {
				for _, tn := range []string{"Parser", "Clause", "Element"} {
					if isNamed(fa.X.Type(), modPath+"/bql/grammar", tn) {
						cells++
						c.bad(fmt.Sprintf("%s writes %s.%s", funcName(fn), tn, fieldName(fa.X.Type(), fa.Field)), in.Pos(), "parser/grammar state written while parsing")
					}
				}
			}
		})
	}
	if cells == 0 {
		c.undecided("state inventory", token.NoPos, "no persistent cell found at all; the enumeration no longer recognises the hook closures")
	}
}


// baseOfAddrOrLoad: &x.f or *(&x.f) -> the FieldAddr.
func baseOfAddrOrLoad(v ssa.Value) ssa.Value {
	if u, ok := v.(*ssa.UnOp); ok && u.Op == token.MUL {
		return u.X
	}
	return v
}
