package main

import (
	"fmt"
	"go/ast"
	"go/constant"
	"go/token"
	"go/types"
	"sort"
	"strings"
	"unicode"

	"golang.org/x/tools/go/ssa"
)

// lexer anchors -----------------------------------------------------------------

type lexAnchors struct {
	lexerT                              *types.Named
	next, backup, peek, emit, emitError *ssa.Function
	ignore, run                         *ssa.Function
	eofVal, itemEOF                     int64
	stateFns                            []*ssa.Function // functions of type func(*lexer) stateFn
	cursorFns                           []*ssa.Function // every function taking or receiving *lexer
	byName                              map[string]*ssa.Function
}

func (c *Ctx) lexAnchors() *lexAnchors {
	if v, ok := c.cacheGet("lex"); ok {
		return v.(*lexAnchors)
	}
	a := &lexAnchors{byName: map[string]*ssa.Function{}}
	c.cachePut("lex", a)
	a.lexerT = c.mustNamed("bql/lexer", "lexer")
	if a.lexerT == nil {
		return nil
	}
	get := func(n string) *ssa.Function { return c.mustFunc("bql/lexer", "lexer."+n) }
	a.next, a.backup, a.peek, a.emit, a.emitError, a.ignore, a.run = get("next"), get("backup"), get("peek"), get("emit"), get("emitError"), get("ignore"), get("run")
	if a.next == nil || a.backup == nil || a.peek == nil || a.emit == nil || a.emitError == nil || a.ignore == nil || a.run == nil {
		return nil
	}
	lp := c.pkg("bql/lexer")
	if k, ok := lp.Types.Scope().Lookup("eof").(*types.Const); ok {
		a.eofVal, _ = constant.Int64Val(k.Val())
	} else {
		c.undecided("lexer.eof", token.NoPos, "constant eof not found")
		return nil
	}
	var ok bool
	if a.itemEOF, ok = c.tokenConst("ItemEOF"); !ok {
		c.undecided("lexer.ItemEOF", token.NoPos, "constant not found")
		return nil
	}
	for _, fn := range c.srcFuncs("bql/lexer") {
		if fn.Parent() != nil {
			continue
		}
		takes := false
		for _, p := range fn.Params {
			if namedOf(p.Type()) == a.lexerT {
				takes = true
			}
		}
		if !takes {
			continue
		}
		a.cursorFns = append(a.cursorFns, fn)
		a.byName[fn.Name()] = fn
		if fn.Signature.Recv() == nil && fn.Signature.Params().Len() == 1 && fn.Signature.Results().Len() == 1 {
			if n, ok := fn.Signature.Results().At(0).Type().(*types.Named); ok && n.Obj().Name() == "stateFn" {
				a.stateFns = append(a.stateFns, fn)
			}
		}
	}
	return a
}

// rune classes for the abstract interpretation
type rclass struct {
	kind string // "" unknown, "eof", "letter", "digit", "space", "const"
	r    rune
}

func (k rclass) known() bool { return k.kind != "" }

// evalRuneCond evaluates a branch condition given that every value in `vals` (results of next/peek) has class k.
// It returns (known, value).
func evalRuneCond(cond ssa.Value, isVal func(ssa.Value) bool, k rclass, eofVal int64) (bool, bool) {
	switch x := cond.(type) {
	case *ssa.UnOp:
		if x.Op == token.NOT {
			kn, v := evalRuneCond(x.X, isVal, k, eofVal)
			return kn, !v
		}
	case *ssa.BinOp:
		if x.Op != token.EQL && x.Op != token.NEQ {
			return false, false
		}
		a, b := x.X, x.Y
		if !isVal(a) {
			a, b = b, a
		}
		if !isVal(a) {
			return false, false
		}
		cv, ok := constInt(b)
		if !ok {
			if cvt, isC := b.(*ssa.Convert); isC {
				cv, ok = constInt(cvt.X)
			}
		}
		if !ok {
			return false, false
		}
		var eq, known bool
		switch k.kind {
		case "eof":
			eq, known = cv == eofVal, true
		case "const":
			eq, known = int64(k.r) == cv, true
		case "letter":
			if cv == eofVal || !unicode.IsLetter(rune(cv)) {
				eq, known = false, true
			}
		case "digit":
			if cv == eofVal || !unicode.IsDigit(rune(cv)) {
				eq, known = false, true
			}
		case "space":
			if cv == eofVal || !unicode.IsSpace(rune(cv)) {
				eq, known = false, true
			}
		}
		if !known {
			return false, false
		}
		return true, eq == (x.Op == token.EQL)
	case *ssa.Call:
		f := x.Call.StaticCallee()
		if f == nil || f.Pkg == nil || f.Pkg.Pkg.Path() != "unicode" || len(x.Call.Args) != 1 || !isVal(x.Call.Args[0]) {
			return false, false
		}
		var pred func(rune) bool
		switch f.Name() {
		case "IsLetter":
			pred = unicode.IsLetter
		case "IsDigit":
			pred = unicode.IsDigit
		case "IsSpace":
			pred = unicode.IsSpace
		case "IsUpper":
			pred = unicode.IsUpper
		case "IsLower":
			pred = unicode.IsLower
		default:
			return false, false
		}
		switch k.kind {
		case "eof":
			return true, false
		case "const":
			return true, pred(k.r)
		case "letter":
			if f.Name() == "IsLetter" {
				return true, true
			}
			if f.Name() == "IsDigit" || f.Name() == "IsSpace" {
				return true, false
			}
		case "digit":
			if f.Name() == "IsDigit" {
				return true, true
			}
			if f.Name() == "IsLetter" || f.Name() == "IsSpace" {
				return true, false
			}
		case "space":
			if f.Name() == "IsSpace" {
				return true, true
			}
			if f.Name() == "IsLetter" || f.Name() == "IsDigit" {
				return true, false
			}
		}
	}
	return false, false
}

func (a *lexAnchors) isNextOrPeek(v ssa.Value) bool {
	call, ok := v.(*ssa.Call)
	if !ok {
		return false
	}
	f := call.Call.StaticCallee()
	return f == a.next || f == a.peek
}

// sccs of the cut CFG (Tarjan); returns components with a cycle.
func (fi *fnInfo) loops() [][]int {
	n := fi.n
	index := make([]int, n)
	low := make([]int, n)
	on := make([]bool, n)
	for i := range index {
		index[i] = -1
	}
	var stack []int
	var out [][]int
	idx := 0
	var strong func(v int)
	strong = func(v int) {
		index[v], low[v] = idx, idx
		idx++
		stack = append(stack, v)
		on[v] = true
		for _, w := range fi.succs[v] {
			if w >= n {
				continue
			}
			if index[w] < 0 {
				strong(w)
				if low[w] < low[v] {
					low[v] = low[w]
				}
			} else if on[w] && index[w] < low[v] {
				low[v] = index[w]
			}
		}
		if low[v] == index[v] {
			var comp []int
			for {
				w := stack[len(stack)-1]
				stack = stack[:len(stack)-1]
				on[w] = false
				comp = append(comp, w)
				if w == v {
					break
				}
			}
			self := false
			for _, w := range fi.succs[v] {
				if w == v {
					self = true
				}
			}
			if len(comp) > 1 || self {
				sort.Ints(comp)
				out = append(out, comp)
			}
		}
	}
	for v := 0; v < n; v++ {
		if fi.reach[v] && index[v] < 0 {
			strong(v)
		}
	}
	return out
}

// succsFrom returns the successors of block v that are feasible when v is entered from u: if v only tests a flag
// that is a phi with a constant incoming value on the edge u->v (`for done := false; !done;`), the branch is decided.
func (fi *fnInfo) succsFrom(u, v int) []int {
	if v >= fi.n {
		return nil
	}
	b := fi.fn.Blocks[v]
	if fi.cutAt[v] >= 0 {
		return nil
	}
	iff, ok := b.Instrs[len(b.Instrs)-1].(*ssa.If)
	if !ok || u < 0 {
		return fi.succs[v]
	}
	cond := iff.Cond
	neg := false
	for {
		un, ok := cond.(*ssa.UnOp)
		if !ok || un.Op != token.NOT {
			break
		}
		neg = !neg
		cond = un.X
	}
	phi, ok := cond.(*ssa.Phi)
	if !ok || phi.Block() != b {
		return fi.succs[v]
	}
	for i, p := range b.Preds {
		if p.Index != u {
			continue
		}
		k, ok := phi.Edges[i].(*ssa.Const)
		if !ok || k.Value == nil || k.Value.Kind() != constant.Bool {
			return fi.succs[v]
		}
		val := constant.BoolVal(k.Value) != neg
		if val {
			return []int{b.Succs[0].Index}
		}
		return []int{b.Succs[1].Index}
	}
	return fi.succs[v]
}

// isRangeLoop: the loop is a `for range` over a string/slice/int (bounded by construction).
func isRangeLoop(fn *ssa.Function, comp []int) bool {
	for _, bi := range comp {
		for _, in := range fn.Blocks[bi].Instrs {
			if _, ok := in.(*ssa.Next); ok {
				return true
			}
		}
		if strings.HasPrefix(fn.Blocks[bi].Comment, "rangeindex") || strings.HasPrefix(fn.Blocks[bi].Comment, "rangeiter") || strings.HasPrefix(fn.Blocks[bi].Comment, "rangeint") {
			return true
		}
	}
	return false
}

// netWeight: net number of runes a block consumes at least (next=+1, backup=-1; helpers by summary).
func (c *Ctx) lexBlockWeight(a *lexAnchors, b *ssa.BasicBlock, memo map[*ssa.Function]int) int {
	w := 0
	for _, in := range b.Instrs {
		call, ok := in.(*ssa.Call)
		if !ok {
			continue
		}
		f := call.Call.StaticCallee()
		switch {
		case f == a.next:
			w++
		case f == a.backup:
			w--
		case f != nil && a.byName[f.Name()] == f:
			w += c.lexMinNet(a, f, memo)
		}
	}
	return w
}

// lexMinNet: lower bound of the net consumption of a helper over all its return paths (loops contribute >= 0 by X1).
func (c *Ctx) lexMinNet(a *lexAnchors, fn *ssa.Function, memo map[*ssa.Function]int) int {
	if v, ok := memo[fn]; ok {
		return v
	}
	memo[fn] = 0 // recursion guard
	fi := c.fi(fn)
	const inf = 1 << 20
	dist := make([]int, fi.n)
	for i := range dist {
		dist[i] = inf
	}
	dist[0] = c.lexBlockWeight(a, fn.Blocks[0], memo)
	for iter := 0; iter < fi.n+1; iter++ {
		for u := 0; u < fi.n; u++ {
			if dist[u] == inf {
				continue
			}
			for _, v := range fi.succs[u] {
				if v >= fi.n {
					continue
				}
				if d := dist[u] + c.lexBlockWeight(a, fn.Blocks[v], memo); d < dist[v] {
					dist[v] = d
				}
			}
		}
	}
	best := inf
	for _, r := range c.returnsOf(fn) {
		if d := dist[r.Block().Index]; d < best {
			best = d
		}
	}
	if best == inf {
		best = 0
	}
	if best < -4 {
		best = -4
	}
	memo[fn] = best
	return best
}

func ruleX1(c *Ctx) {
	c.Rule("X1", "every loop of the lexer makes progress or leaves: (A) each cycle consumes at least one rune net (next=+1, backup=-1, helpers by their minimum), and (B) once the input is exhausted (every next/peek in the loop yields eof) no cycle of the loop stays feasible; for-range loops are bounded by construction", 8)
	a := c.lexAnchors()
	if a == nil {
		return
	}
	memo := map[*ssa.Function]int{}
	nloops := 0
	for _, fn := range a.cursorFns {
		if fn == a.run {
			continue // the state loop is rule X1b's obligation
		}
		fi := c.fi(fn)
		for li, comp := range fi.loops() {
			c.analysed(funcName(fn))
			key := fmt.Sprintf("%s loop #%d", funcName(fn), li+1)
			pos := fn.Blocks[comp[0]].Instrs[0].Pos()
			for _, bi := range comp {
				for _, in := range fn.Blocks[bi].Instrs {
					if in.Pos().IsValid() && (!pos.IsValid() || in.Pos() < pos) {
						pos = in.Pos()
					}
				}
			}
			if isRangeLoop(fn, comp) {
				c.trivial(key, pos, "for-range loop: bounded by construction")
				continue
			}
			nloops++
			inComp := map[int]bool{}
			for _, bi := range comp {
				inComp[bi] = true
			}
			// Both analyses run on the line graph of the loop (nodes = edges u->v inside the loop) so that flag tests
			// decided by the incoming edge (`for done := false; !done;`) do not create infeasible cycles.
			type edgeT struct{ u, v int }
			var nodes []edgeT
			for _, u := range comp {
				for _, v := range fi.succs[u] {
					if inComp[v] {
						nodes = append(nodes, edgeT{u, v})
					}
				}
			}
			var isVal func(v ssa.Value) bool
			isVal = func(v ssa.Value) bool {
				if phi, ok := v.(*ssa.Phi); ok && inComp[phi.Block().Index] {
					// `for r := l.next(); cond(r); r = l.next()`: on every cycle the loop variable arrives over an
					// in-loop edge, so only those edges matter for the end-of-input argument
					n := 0
					for i, e := range phi.Edges {
						if !inComp[phi.Block().Preds[i].Index] {
							continue
						}
						if e == ssa.Value(phi) || !isVal(e) {
							return false
						}
						n++
					}
					return n > 0
				}
				if !a.isNextOrPeek(v) {
					return false
				}
				return inComp[v.(*ssa.Call).Block().Index]
			}
			// next(e, eofMode): line-graph successors of edge e
			nextOf := func(e edgeT, eofMode bool) []edgeT {
				succs := fi.succsFrom(e.u, e.v)
				if eofMode {
					b := fn.Blocks[e.v]
					if iff, ok := b.Instrs[len(b.Instrs)-1].(*ssa.If); ok && fi.cutAt[e.v] < 0 {
						if kn, val := evalRuneCond(iff.Cond, isVal, rclass{kind: "eof"}, a.eofVal); kn {
							if val {
								succs = []int{b.Succs[0].Index}
							} else {
								succs = []int{b.Succs[1].Index}
							}
						}
					}
				}
				var out []edgeT
				for _, w := range succs {
					if w < fi.n && inComp[w] {
						out = append(out, edgeT{e.v, w})
					}
				}
				return out
			}
			// (A) no cycle with net consumption <= 0: Bellman-Ford with weights w*K-1 on line-graph nodes (weight of the target block)
			K := len(nodes) + 1
			wt := map[edgeT]int{}
			for _, e := range nodes {
				wt[e] = c.lexBlockWeight(a, fn.Blocks[e.v], memo)*K - 1
			}
			negCycle := false
			for _, src := range nodes {
				dist := map[edgeT]int{}
				for _, nx := range nextOf(src, false) {
					if d, ok := dist[nx]; !ok || wt[nx] < d {
						dist[nx] = wt[nx]
					}
				}
				for iter := 0; iter <= len(nodes)+1; iter++ {
					changed := false
					for _, e := range nodes {
						de, ok := dist[e]
						if !ok {
							continue
						}
						for _, nx := range nextOf(e, false) {
							nd := de + wt[nx]
							if nd < -(K * len(nodes) * 8) {
								nd = -(K * len(nodes) * 8)
							}
							if dv, ok := dist[nx]; !ok || nd < dv {
								dist[nx] = nd
								changed = true
							}
						}
					}
					if !changed {
						break
					}
				}
				if d, ok := dist[src]; ok && d < 0 {
					negCycle = true
					break
				}
			}
			// (B) eof assumption: the line graph with eof-infeasible branches removed must be acyclic
			color := map[edgeT]int{}
			cyc := false
			var dfs func(e edgeT)
			dfs = func(e edgeT) {
				color[e] = 1
				for _, nx := range nextOf(e, true) {
					if color[nx] == 1 {
						cyc = true
					} else if color[nx] == 0 {
						dfs(nx)
					}
				}
				color[e] = 2
			}
			for _, e := range nodes {
				if color[e] == 0 {
					dfs(e)
				}
			}
			switch {
			case negCycle:
				c.bad(key, pos, "loop at %s has a cycle that consumes no rune net (only peeks, or a next undone by backup): it can spin forever on the same input position", c.pos(pos))
			case cyc:
				c.bad(key, pos, "loop at %s keeps a feasible cycle when every next()/peek() in it returns eof: at end of input it never leaves", c.pos(pos))
			default:
				c.ok(key, pos, "%d blocks: every cycle consumes >= 1 rune net; with all next/peek results = eof no cycle remains feasible", len(comp))
			}
		}
	}
	if nloops < 8 {
		c.undecided("lexer loops", token.NoPos, "only %d unbounded loops found in the lexer; the loop enumeration no longer matches the code", nloops)
	}
}

// ---- X1b state graph ------------------------------------------------------------------------

// stateEdge: function F can return constant state G at return r.
type stateEdge struct {
	from, to *ssa.Function // to == nil: return nil
	ret      *ssa.Return
	via      *ssa.Function // helper whose return value is handed on, if any
	viaRet   *ssa.Return
}

func (c *Ctx) stateEdges(a *lexAnchors, fn *ssa.Function) ([]stateEdge, bool) {
	var out []stateEdge
	ok := true
	for _, r := range c.returnsOf(fn) {
		var leaves []ssa.Value
		leafSources(resultValues(r)[0], map[ssa.Value]bool{}, &leaves)
		for _, v := range leaves {
			switch x := v.(type) {
			case *ssa.Const:
				out = append(out, stateEdge{from: fn, ret: r})
			case *ssa.Function:
				out = append(out, stateEdge{from: fn, to: x, ret: r})
			case *ssa.ChangeType:
				if f, isF := x.X.(*ssa.Function); isF {
					out = append(out, stateEdge{from: fn, to: f, ret: r})
				} else {
					ok = false
				}
			case *ssa.Call:
				// state returned by a helper (isSingleSymbolToken): take the helper's edges
				if f := x.Call.StaticCallee(); f != nil && a.byName[f.Name()] == f {
					sub, ok2 := c.stateEdges(a, f)
					if !ok2 {
						ok = false
					}
					for _, e := range sub {
						out = append(out, stateEdge{from: fn, to: e.to, ret: r, via: f, viaRet: e.ret})
					}
				} else {
					ok = false
				}
			default:
				ok = false
			}
		}
	}
	return out, ok
}

// minNetTo computes, for state function fn entered with the rune at the cursor of class k (phase 0),
// the minimum net consumption on paths to each return, evaluating conditions on the first rune while it is still pending.
// It returns per return instruction (min net, whether the pending class is still valid there).
func (c *Ctx) minNetTo(a *lexAnchors, fn *ssa.Function, k rclass, memo map[*ssa.Function]int, depth int) map[*ssa.Return][2]int {
	type st struct {
		prev  int
		b     int
		phase int // 0: nothing consumed, class pending; 1: exactly the first rune consumed by the latest next (backup returns to 0); 2: beyond
	}
	fi := c.fi(fn)
	const inf = 1 << 20
	dist := map[st]int{{-1, 0, 0}: 0}
	res := map[*ssa.Return][2]int{}
	type item struct {
		s st
		d int
	}
	work := []item{{st{-1, 0, 0}, 0}}
	steps := 0
	for len(work) > 0 && steps < 20000 {
		steps++
		it := work[0]
		work = work[1:]
		if d, ok := dist[it.s]; ok && d < it.d {
			continue
		}
		b := fn.Blocks[it.s.b]
		phase, d := it.s.phase, it.d
		pendingVals := map[ssa.Value]bool{}
		dead := false
		for _, in := range b.Instrs {
			call, ok := in.(*ssa.Call)
			if !ok {
				continue
			}
			f := call.Call.StaticCallee()
			switch {
			case f == a.next:
				d++
				if phase == 0 {
					phase = 1
					pendingVals[call] = true
				} else {
					phase = 2
				}
			case f == a.peek:
				if phase == 0 {
					pendingVals[call] = true
				}
			case f == a.backup:
				d--
				if phase == 1 {
					phase = 0
				} else {
					phase = 2
				}
			case f == a.emit || f == a.emitError || f == a.ignore:
			case f != nil && a.byName[f.Name()] == f:
				if phase == 0 && k.known() && depth < 4 {
					sub := c.minNetTo(a, f, k, memo, depth+1)
					best, still := inf, 1
					for _, v := range sub {
						if v[0] < best {
							best = v[0]
						}
						if v[1] == 0 {
							still = 0
						}
					}
					if best == inf {
						dead = true
					} else {
						d += best
						if best != 0 || still == 0 {
							phase = 2
						}
					}
				} else {
					d += c.lexMinNet(a, f, memo)
					phase = 2
				}
			}
		}
		if dead {
			continue
		}
		if d < -8 {
			d = -8
		}
		if r, ok := b.Instrs[len(b.Instrs)-1].(*ssa.Return); ok && fi.cutAt[b.Index] < 0 {
			still := 0
			if phase == 0 {
				still = 1
			}
			if old, ok := res[r]; !ok || d < old[0] || (d == old[0] && still > old[1]) {
				res[r] = [2]int{d, still}
			}
			continue
		}
		succs := fi.succsFrom(it.s.prev, b.Index)
		if iff, ok := b.Instrs[len(b.Instrs)-1].(*ssa.If); ok && fi.cutAt[b.Index] < 0 && k.known() && (phase == 0 || phase == 1) && len(succs) > 1 {
			// values that carry the pending class: next/peek results produced while nothing else was consumed
			isVal := func(v ssa.Value) bool {
				if pendingVals[v] {
					return true
				}
				// a value produced in a dominating block during phase 0/1 — accept any next/peek result: sound because
				// in phase 0/1 every next/peek so far returned the pending rune
				return a.isNextOrPeek(v)
			}
			if kn, val := evalRuneCond(iff.Cond, isVal, k, a.eofVal); kn {
				if val {
					succs = []int{b.Succs[0].Index}
				} else {
					succs = []int{b.Succs[1].Index}
				}
			}
		}
		for _, v := range succs {
			if v >= fi.n {
				continue
			}
			ns := st{b.Index, v, phase}
			if old, ok := dist[ns]; !ok || d < old {
				dist[ns] = d
				work = append(work, item{ns, d})
			}
		}
	}
	return res
}

func ruleX1b(c *Ctx) {
	c.Rule("X1b", "the lexer's state machine terminates: every cycle of the state graph passes through lexToken; lexToken hands control to a state without consuming only under a rune-class fact (so not at end of input), and from there at least one rune is consumed before lexToken is entered again", 6)
	a := c.lexAnchors()
	if a == nil {
		return
	}
	lexToken := a.byName["lexToken"]
	if lexToken == nil {
		c.undecided("lexToken", token.NoPos, "initial state function not found")
		return
	}
	// run starts from lexToken and loops state = state(l)
	edges := map[*ssa.Function][]stateEdge{}
	for _, fn := range a.stateFns {
		es, ok := c.stateEdges(a, fn)
		if !ok {
			c.undecided(funcName(fn)+" returned states", fn.Pos(), "a returned state is not a constant function or nil")
		}
		edges[fn] = es
	}
	// (1) all cycles pass through lexToken
	color := map[*ssa.Function]int{}
	cyc := ""
	var dfs func(f *ssa.Function)
	dfs = func(f *ssa.Function) {
		color[f] = 1
		for _, e := range edges[f] {
			if e.to == nil || e.to == lexToken {
				continue
			}
			if color[e.to] == 1 {
				cyc = funcName(f) + " -> " + funcName(e.to)
			} else if color[e.to] == 0 {
				dfs(e.to)
			}
		}
		color[f] = 2
	}
	for _, fn := range a.stateFns {
		if fn != lexToken && color[fn] == 0 {
			dfs(fn)
		}
	}
	c.check(cyc == "", "state graph cycles pass through lexToken", lexToken.Pos(), fmt.Sprintf("%d state functions; the graph without lexToken is acyclic", len(a.stateFns)), "state cycle avoiding lexToken: "+cyc)
	// (2)+(3)
	memo := map[*ssa.Function]int{}
	fi := c.fi(lexToken)
	classAt := func(r *ssa.Return) rclass {
		for _, ft := range fi.factsAt(r.Block()) {
			isVal := func(v ssa.Value) bool { return a.isNextOrPeek(v) }
			for _, k := range []rclass{{kind: "letter"}, {kind: "digit"}, {kind: "space"}} {
				// the fact holds for class k and fails for eof => non-eof class known
				kn1, v1 := evalRuneCond(ft.Cond, isVal, k, a.eofVal)
				kn2, v2 := evalRuneCond(ft.Cond, isVal, rclass{kind: "eof"}, a.eofVal)
				if kn1 && v1 == ft.Truth && kn2 && v2 != ft.Truth {
					// is the fact of the form IsX(r) true or r == const true?
					if call, ok := ft.Cond.(*ssa.Call); ok && ft.Truth {
						switch call.Call.StaticCallee().Name() {
						case "IsLetter":
							return rclass{kind: "letter"}
						case "IsDigit":
							return rclass{kind: "digit"}
						case "IsSpace":
							return rclass{kind: "space"}
						}
					}
				}
			}
			if bo, ok := ft.Cond.(*ssa.BinOp); ok && bo.Op == token.EQL && ft.Truth {
				x, y := bo.X, bo.Y
				if !a.isNextOrPeek(x) {
					x, y = y, x
				}
				if a.isNextOrPeek(x) {
					if cv, ok := constInt(y); ok && cv != a.eofVal {
						return rclass{kind: "const", r: rune(cv)}
					}
				}
			}
		}
		return rclass{}
	}
	tokNet := c.minNetTo(a, lexToken, rclass{}, memo, 0)
	zero := 0
	for _, e := range edges[lexToken] {
		if e.to == nil {
			continue
		}
		net := tokNet[e.ret]
		if e.via != nil {
			// the state comes out of a helper: add what the helper consumed on the path returning that state beyond its minimum
			sub := c.minNetTo(a, e.via, rclass{}, memo, 0)
			if v, ok := sub[e.viaRet]; ok {
				net[0] += v[0] - c.lexMinNet(a, e.via, memo)
			}
		}
		key := fmt.Sprintf("lexToken -> %s", e.to.Name())
		if net[0] >= 1 {
			c.ok(key, e.ret.Pos(), "lexToken consumed >= %d rune(s) before handing over", net[0])
			continue
		}
		zero++
		k := classAt(e.ret)
		if !k.known() {
			c.bad(key, e.ret.Pos(), "lexToken returns state %s at %s without consuming and without a rune-class test of the peeked rune: at end of input (or on an unexpected rune) the run loop can revisit lexToken at the same position forever", e.to.Name(), c.pos(e.ret.Pos()))
			continue
		}
		// follow zero-consumption chains from e.to with pending class k
		var follow func(f *ssa.Function, depth int, trail string) string
		follow = func(f *ssa.Function, depth int, trail string) string {
			if depth > 6 {
				return "zero-consumption chain too long: " + trail
			}
			nets := c.minNetTo(a, f, k, memo, 0)
			for _, e2 := range edges[f] {
				if e2.to == nil {
					continue
				}
				n2, reachable := nets[e2.ret]
				if !reachable {
					continue // the return is infeasible for this rune class
				}
				if n2[0] >= 1 {
					continue
				}
				if e2.to == lexToken {
					return fmt.Sprintf("%s -> %s returns to lexToken at %s having consumed nothing", trail, f.Name(), c.pos(e2.ret.Pos()))
				}
				if n2[1] == 0 {
					// class no longer valid: continue without class knowledge
					if m := c.lexMinNet(a, e2.to, memo); m < 1 {
						// conservative: check its edges back to lexToken
						for _, e3 := range edges[e2.to] {
							if e3.to == lexToken {
								return fmt.Sprintf("%s -> %s -> %s may return to lexToken without net consumption", trail, f.Name(), e2.to.Name())
							}
						}
					}
					continue
				}
				if msg := follow(e2.to, depth+1, trail+" -> "+f.Name()); msg != "" {
					return msg
				}
			}
			return ""
		}
		if msg := follow(e.to, 0, "lexToken"); msg != "" {
			c.bad(key, e.ret.Pos(), "%s", msg)
		} else {
			c.ok(key, e.ret.Pos(), "zero-consumption hand-over under rune class %s%s; every path of %s (and the states it chains to) consumes >= 1 rune before lexToken is re-entered", k.kind, constRune(k), e.to.Name())
		}
	}
	if zero < 4 {
		c.undecided("lexToken zero-consumption edges", lexToken.Pos(), "only %d zero-consumption hand-overs found; the state graph extraction no longer matches the code", zero)
	}
	// run: a loop calling the current state, starting at lexToken
	okRun := false
	allInstrs(a.run, func(in ssa.Instruction) {
		if call, ok := in.(*ssa.Call); ok && call.Call.StaticCallee() == lexToken {
			okRun = true
		}
	})
	c.check(okRun, "(*lexer).run starts in lexToken", a.run.Pos(), "initial state is lexToken", "run no longer starts in lexToken")
}

func constRune(k rclass) string {
	if k.kind == "const" {
		return fmt.Sprintf(" %q", k.r)
	}
	return ""
}

// ---- X2 terminal token -----------------------------------------------------------------------

type emitState struct {
	last      uint8 // 0 none, 1 non-terminal, 2 terminal
	terminals uint8
}

func ruleX2(c *Ctx) {
	c.Rule("X2", "exactly one terminal token: in every state function each `return nil` is preceded on every path by exactly one terminal emission (emitError or emit(ItemEOF)) with nothing emitted after it, and no non-nil state is returned after a terminal emission; run closes the token channel once after the loop, only emit/emitError send on it, and lex is the only spawn site", 15)
	a := c.lexAnchors()
	if a == nil {
		return
	}
	// helper summaries: what does a helper emit? each emission is a constant token type or one of its parameters
	type emis struct {
		constant int64
		param    int // -1: constant
		isError  bool
	}
	emissionsOf := func(f *ssa.Function) ([]emis, bool) {
		var out []emis
		ok := true
		allInstrs(f, func(in ssa.Instruction) {
			call, isCall := in.(*ssa.Call)
			if !isCall {
				return
			}
			g := call.Call.StaticCallee()
			switch {
			case g == a.emitError:
				out = append(out, emis{isError: true, param: -1})
			case g == a.emit:
				if v, isC := constInt(call.Call.Args[1]); isC {
					out = append(out, emis{constant: v, param: -1})
				} else if p, isP := call.Call.Args[1].(*ssa.Parameter); isP {
					for i, fp := range f.Params {
						if fp == p {
							out = append(out, emis{param: i})
						}
					}
				} else {
					ok = false
				}
			case g != nil && a.byName[g.Name()] == g && g != a.next && g != a.backup && g != a.peek && g != a.ignore:
				// nested helper emitting: not modelled
				allInstrs(g, func(i2 ssa.Instruction) {
					if c2, ok2 := i2.(*ssa.Call); ok2 && (c2.Call.StaticCallee() == a.emit || c2.Call.StaticCallee() == a.emitError) {
						ok = false
					}
				})
			}
		})
		return out, ok
	}
	nNil, nTerm := 0, 0
	for _, fn := range a.stateFns {
		c.analysed(funcName(fn))
		undec := ""
		tr := func(s emitState, in ssa.Instruction) emitState {
			call, ok := in.(*ssa.Call)
			if !ok {
				return s
			}
			g := call.Call.StaticCallee()
			term := false
			switch {
			case g == a.emitError:
				term = true
			case g == a.emit:
				v, ok := constInt(call.Call.Args[1])
				if !ok {
					undec = "emit called with a non-constant token type"
				}
				term = v == a.itemEOF
			case g != nil && a.byName[g.Name()] == g && g != a.next && g != a.backup && g != a.peek && g != a.ignore:
				es, ok := emissionsOf(g)
				if !ok {
					undec = "helper " + g.Name() + " emits a token type the analysis cannot resolve"
				}
				for _, e := range es {
					t := e.isError
					if !e.isError {
						v := e.constant
						if e.param >= 0 {
							cvs, isC := c.constIntsOf(call.Call.Args[e.param])
							if !isC {
								undec = "helper " + g.Name() + " is passed a non-constant token type"
							}
							var cv int64
							for _, one := range cvs {
								cv = one
								if one == a.itemEOF {
									break // a table holding the end token makes the helper a possible terminal emitter
								}
							}
							v = cv
						}
						t = v == a.itemEOF
					}
					// a helper emits at most on some paths; model it as "may emit": a terminal emission inside a helper is not accepted
					if t {
						undec = "helper " + g.Name() + " may emit a terminal token"
					}
					if s.last == 2 {
						s.terminals = 3
					}
					s.last = 1
				}
				return s
			default:
				return s
			}
			if term {
				if s.terminals < 3 {
					s.terminals++
				}
				s.last = 2
			} else {
				if s.last == 2 {
					s.terminals = 3 // emission after a terminal one
				}
				s.last = 1
			}
			return s
		}
		atRet, _ := flow(c, fn, emitState{}, tr, nil)
		var bad []string
		nn, ns := 0, 0
		for _, r := range c.returnsOf(fn) {
			var leaves []ssa.Value
			leafSources(resultValues(r)[0], map[ssa.Value]bool{}, &leaves)
			isNil, isState := false, false
			for _, v := range leaves {
				if isNilConst(v) {
					isNil = true
				} else {
					isState = true
				}
			}
			for s := range atRet[r] {
				if isNil && !(s.last == 2 && s.terminals == 1) {
					bad = append(bad, fmt.Sprintf("`return nil` at %s reached with %d terminal emissions (last emission %s): the consumer sees no end token, two of them, or tokens after the end", c.pos(r.Pos()), s.terminals, [...]string{"none", "non-terminal", "terminal"}[s.last]))
				}
				if isState && s.terminals > 0 {
					bad = append(bad, fmt.Sprintf("a next state is returned at %s after a terminal token was emitted: lexing goes on after the end token", c.pos(r.Pos())))
				}
			}
			if isNil {
				nNil++
				nn++
			}
			if isState {
				ns++
			}
		}
		key := funcName(fn) + " terminal-token discipline"
		sort.Strings(bad)
		switch {
		case len(bad) > 0:
			c.bad(key, fn.Pos(), "%s", strings.Join(uniq(bad), "; "))
		case undec != "":
			c.undecided(key, fn.Pos(), "%s", undec)
		default:
			c.ok(key, fn.Pos(), "%d `return nil` each after exactly one terminal emission and nothing after it; %d state returns with no terminal token emitted before", nn, ns)
		}
		allInstrs(fn, func(in ssa.Instruction) {
			if call, ok := in.(*ssa.Call); ok {
				g := call.Call.StaticCallee()
				if g == a.emitError {
					nTerm++
				} else if g == a.emit {
					if v, _ := constInt(call.Call.Args[1]); v == a.itemEOF {
						nTerm++
					}
				}
			}
		})
	}
	if nNil < 14 {
		c.undecided("terminal returns", token.NoPos, "only %d `return nil` sites found", nNil)
	}
	// channel discipline
	var closes, sends, spawns []string
	for _, fn := range c.srcFuncs("bql/lexer") {
		allInstrs(fn, func(in ssa.Instruction) {
			switch x := in.(type) {
			case *ssa.Call:
				if isBuiltinCall(&x.Call, "close") {
					closes = append(closes, funcName(fn))
				}
			case *ssa.Send:
				sends = append(sends, funcName(fn))
			case *ssa.Go:
				spawns = append(spawns, funcName(fn))
			}
		})
	}
	sort.Strings(sends)
	c.check(len(closes) == 1 && closes[0] == funcName(a.run), "token channel closed once by run", a.run.Pos(), "the only close in the package is in run", fmt.Sprintf("close sites: %v", closes))
	if len(closes) == 1 {
		// after the loop: the close post-dominates entry and is not in a loop
		fi := c.fi(a.run)
		allInstrs(a.run, func(in ssa.Instruction) {
			if call, ok := in.(*ssa.Call); ok && isBuiltinCall(&call.Call, "close") {
				c.check(!inLoop(fi, in.Block()) && fi.postDominates(in.Block(), a.run.Blocks[0]), "run closes after the state loop on every path", in.Pos(), "close is outside the loop and post-dominates the entry", "close is inside the loop or skipped on some path")
			}
		})
	}
	okSend := len(sends) == 2 && sends[0] != sends[1]
	for _, s := range sends {
		if s != funcName(a.emit) && s != funcName(a.emitError) {
			okSend = false
		}
	}
	c.check(okSend, "only emit and emitError send tokens", a.emit.Pos(), "two send sites: emit, emitError", fmt.Sprintf("send sites: %v", sends))
	c.check(len(spawns) == 1 && spawns[0] == "lexer.lex", "lex is the only spawn site", token.NoPos, "one go statement, in lex", fmt.Sprintf("spawn sites: %v", spawns))
}

func returnOrdinal(c *Ctx, fn *ssa.Function, r *ssa.Return) int {
	rs := c.returnsOf(fn)
	sort.Slice(rs, func(i, j int) bool { return rs[i].Pos() < rs[j].Pos() })
	for i, x := range rs {
		if x == r {
			return i + 1
		}
	}
	return 0
}

// ---- X3 cursor typestate ----------------------------------------------------------------------

type backState struct{ can bool }

func ruleX3(c *Ctx) {
	c.Rule("X3", "cursor discipline: start is only ever assigned pos; pos only changes by +width after a decode (next) and -width (backup); input and tokens are set at construction only; token text is input[start:pos]; every backup is preceded on every path by a next with no backup, emission or ignore in between", 20)
	a := c.lexAnchors()
	if a == nil {
		return
	}
	// (a) writers
	for _, fn := range c.srcFuncs("bql/lexer") {
		allInstrs(fn, func(in ssa.Instruction) {
			st, ok := in.(*ssa.Store)
			if !ok {
				return
			}
			fa, ok := st.Addr.(*ssa.FieldAddr)
			if !ok || namedOf(fa.X.Type()) != a.lexerT {
				return
			}
			if _, fresh := fa.X.(*ssa.Alloc); fresh {
				return // construction
			}
			name := fieldName(fa.X.Type(), fa.Field)
			t := c.term(st.Val)
			key := fmt.Sprintf("%s writes lexer.%s", funcName(fn), name)
			switch name {
			case "start":
				c.check(strings.HasSuffix(t, ".pos") && !strings.Contains(t, "("), key, in.Pos(), "start := pos", "start is assigned "+t+", not the current position: token texts are no longer consecutive substrings")
			case "pos":
				okNext := fn == a.next && strings.Contains(t, ".pos + ") && strings.Contains(t, ".width")
				okBack := fn == a.backup && strings.Contains(t, ".pos - ") && strings.Contains(t, ".width")
				c.check(okNext || okBack, key, in.Pos(), "pos moves by the width of the last decoded rune", "pos is assigned "+t+" in "+funcName(fn)+": only next (+width) and backup (-width) may move the cursor")
			case "input", "tokens":
				c.bad(key, in.Pos(), "%s is written after construction", name)
			case "width":
				c.check(fn == a.next, key, in.Pos(), "width set by next", "width written outside next: backup would step by a wrong amount")
			}
		})
	}
	// token text
	for _, fn := range []*ssa.Function{a.emit, a.emitError} {
		okText := false
		allInstrs(fn, func(in ssa.Instruction) {
			if sl, ok := in.(*ssa.Slice); ok {
				t := c.term(sl)
				if strings.Contains(t, ".input[") && strings.Contains(t, ".start:") && strings.HasSuffix(t, ".pos]") {
					okText = true
				}
			}
		})
		// the value stored in the token's Text field is that slice itself, not something computed from it
		wrapped := ""
		allInstrs(fn, func(in ssa.Instruction) {
			st, ok := in.(*ssa.Store)
			if !ok {
				return
			}
			fa, ok := st.Addr.(*ssa.FieldAddr)
			if !ok || !isNamed(fa.X.Type(), modPath+"/bql/lexer", "Token") || fieldName(fa.X.Type(), fa.Field) != "Text" {
				return
			}
			if _, isSlice := st.Val.(*ssa.Slice); !isSlice {
				wrapped = truncate(c.term(st.Val), 80)
			}
		})
		c.check(okText && wrapped == "", funcName(fn)+" token text", fn.Pos(), "Text = input[start:pos]", "token text is not input[start:pos]"+map[bool]string{true: " but " + wrapped + ": the emitted text is no longer a substring of the input", false: ""}[wrapped != ""])
	}
	// next guards the decode with pos >= len(input)
	{
		fi := c.fi(a.next)
		guarded := false
		allInstrs(a.next, func(in ssa.Instruction) {
			if call, ok := in.(*ssa.Call); ok && isCallTo(&call.Call, "unicode/utf8", "DecodeRuneInString") {
				for _, ft := range fi.factsAt(in.Block()) {
					if bo, ok := ft.Cond.(*ssa.BinOp); ok {
						t := c.term(bo)
						if strings.Contains(t, ".pos >= len(") && !ft.Truth || strings.Contains(t, ".pos < len(") && ft.Truth {
							guarded = true
						}
					}
				}
			}
		})
		c.check(guarded, "(*lexer).next decodes only inside the input", a.next.Pos(), "decode dominated by pos < len(input)", "next decodes without testing pos against len(input)")
	}
	// (b) backup typestate
	n := 0
	for _, fn := range a.cursorFns {
		var backs []ssa.Instruction
		allInstrs(fn, func(in ssa.Instruction) {
			if call, ok := in.(*ssa.Call); ok && call.Call.StaticCallee() == a.backup {
				backs = append(backs, in)
			}
		})
		if len(backs) == 0 {
			continue
		}
		tr := func(s backState, in ssa.Instruction) backState {
			call, ok := in.(*ssa.Call)
			if !ok {
				return s
			}
			g := call.Call.StaticCallee()
			switch {
			case g == a.next:
				s.can = true
			case g == a.backup || g == a.emit || g == a.emitError || g == a.ignore:
				s.can = false
			case g != nil && a.byName[g.Name()] == g:
				s.can = false
			}
			return s
		}
		_, at := flow(c, fn, backState{}, tr, nil)
		for i, b := range backs {
			n++
			okAll := true
			states := at(b)
			for s := range states {
				if !s.can {
					okAll = false
				}
			}
			key := fmt.Sprintf("%s backup #%d", funcName(fn), i+1)
			if len(states) == 0 {
				continue
			}
			c.check(okAll, key, b.Pos(), "preceded by next with nothing in between on every path", fmt.Sprintf("backup at %s can be reached without a fresh next (after another backup, an emission, ignore or a helper call): it steps back by a stale width and may move before the token start", c.pos(b.Pos())))
		}
	}
	if n < 10 {
		c.undecided("backup sites", token.NoPos, "only %d backup calls found", n)
	}
}

// ---- X4 case folding ---------------------------------------------------------------------------

func ruleX4(c *Ctx) {
	c.Rule("X4", "keywords and literal type names are matched regardless of case: no state function compares token text with a keyword constant by ==/!= or switch unless the text went through strings.ToLower/ToUpper; keyword constants are matched with strings.EqualFold", 37)
	a := c.lexAnchors()
	if a == nil {
		return
	}
	lettersOnly := func(s string) bool {
		if s == "" {
			return false
		}
		for _, r := range s {
			if !unicode.IsLetter(r) && !unicode.IsDigit(r) {
				return false
			}
		}
		return true
	}
	nFold := 0
	for _, fn := range a.cursorFns {
		allInstrs(fn, func(in ssa.Instruction) {
			switch x := in.(type) {
			case *ssa.Call:
				if isCallTo(&x.Call, "strings", "EqualFold") {
					for _, arg := range x.Call.Args {
						cands := []ssa.Value{arg}
						if tv := c.tableFieldValues(arg); len(tv) > 0 {
							cands = tv // a keyword table: every entry is matched by this one EqualFold
						}
						for _, cv := range cands {
							if k, ok := cv.(*ssa.Const); ok && k.Value != nil && k.Value.Kind() == constant.String && lettersOnly(constant.StringVal(k.Value)) {
								nFold++
								c.ok(fmt.Sprintf("%s matches keyword %q", funcName(fn), constant.StringVal(k.Value)), in.Pos(), "strings.EqualFold")
							}
						}
					}
				}
			case *ssa.BinOp:
				if x.Op != token.EQL && x.Op != token.NEQ {
					return
				}
				for i, op := range []ssa.Value{x.X, x.Y} {
					k, ok := op.(*ssa.Const)
					if !ok || k.Value == nil || k.Value.Kind() != constant.String || !lettersOnly(constant.StringVal(k.Value)) {
						continue
					}
					other := []ssa.Value{x.Y, x.X}[i]
					t := c.term(other)
					key := fmt.Sprintf("%s compares text with %q", funcName(fn), constant.StringVal(k.Value))
					if strings.Contains(t, "strings.ToLower(") || strings.Contains(t, "strings.ToUpper(") {
						c.ok(key, in.Pos(), "operand was case-normalised first")
					} else {
						c.bad(key, in.Pos(), "%s at %s compares input text with %q case-sensitively (no EqualFold, no ToLower): upper- or mixed-case spellings are not recognised", x.Op, c.pos(in.Pos()), constant.StringVal(k.Value))
					}
				}
			}
		})
	}
	if nFold < 30 {
		c.undecided("keyword matches", token.NoPos, "only %d EqualFold keyword matches found", nFold)
	}
}

// ---- X5 token tables ------------------------------------------------------------------------------

func ruleX5(c *Ctx) {
	c.Rule("X5", "token tables agree: TokenType.String has a case for every TokenType constant; every token the grammar mentions can be emitted by the lexer; the literal type names accepted by the lexer = the cases of the literal parser = the renderings of literal.Type", 60)
	a := c.lexAnchors()
	if a == nil {
		return
	}
	tt := c.mustNamed("bql/lexer", "TokenType")
	lp := c.pkg("bql/lexer")
	if tt == nil {
		return
	}
	consts := map[int64]string{}
	for _, n := range lp.Types.Scope().Names() {
		if k, ok := lp.Types.Scope().Lookup(n).(*types.Const); ok && types.Identical(k.Type(), tt) {
			v, _ := constant.Int64Val(k.Val())
			consts[v] = n
		}
	}
	d, info := c.findDecl("bql/lexer", "TokenType.String")
	if d == nil {
		c.undecided("TokenType.String", token.NoPos, "method not found")
	} else {
		cs, ok := c.switchCaseConsts(d, info, tt)
		if !ok {
			c.undecided("TokenType.String", d.Pos(), "no switch over TokenType")
		}
		for v, n := range consts {
			key := "TokenType.String case " + n
			if cs[fmt.Sprint(v)] {
				c.ok(key, d.Pos(), "has a case")
			} else {
				c.bad(key, d.Pos(), "TokenType constant %s has no case in String(): it prints as the default/unknown text", n)
			}
		}
	}
	// emittable tokens
	emittable := map[int64]bool{}
	for _, fn := range a.cursorFns {
		allInstrs(fn, func(in ssa.Instruction) {
			call, ok := in.(*ssa.Call)
			if !ok || call.Call.StaticCallee() == nil {
				return
			}
			g := call.Call.StaticCallee()
			if g == a.emitError {
				emittable[0] = true
				if v, ok := c.tokenConst("ItemError"); ok {
					emittable[v] = true
				}
			}
			if g == a.emit || (a.byName[g.Name()] == g) {
				for i, arg := range call.Call.Args {
					if i < len(g.Params) && types.Identical(g.Params[i].Type(), tt) {
						if vs, ok := c.constIntsOf(arg); ok {
							for _, v := range vs {
								emittable[v] = true
							}
						}
					}
				}
			}
		})
	}
	g := c.grammarTable()
	used := map[int64]bool{}
	for _, r := range g.order {
		for _, alt := range g.rules[r] {
			for _, e := range alt.elems {
				if !e.isSym {
					used[e.tok] = true
				}
			}
		}
	}
	var us []int64
	for v := range used {
		us = append(us, v)
	}
	sort.Slice(us, func(i, j int) bool { return us[i] < us[j] })
	for _, v := range us {
		key := "grammar token " + consts[v] + " emittable"
		if emittable[v] {
			c.ok(key, token.NoPos, "the lexer has an emission site for it")
		} else {
			c.bad(key, token.NoPos, "the grammar expects token %s but no lexer function emits it: every alternative containing it is dead", consts[v])
		}
	}
	if len(us) < 40 {
		c.undecided("grammar tokens", token.NoPos, "only %d token types found in the grammar table", len(us))
	}
	// literal type names
	lexSet := map[string]bool{}
	if fn := a.byName["lexLiteral"]; fn != nil {
		allInstrs(fn, func(in ssa.Instruction) {
			if bo, ok := in.(*ssa.BinOp); ok && bo.Op == token.EQL {
				for _, op := range []ssa.Value{bo.X, bo.Y} {
					if k, ok := op.(*ssa.Const); ok && k.Value != nil && k.Value.Kind() == constant.String {
						lexSet[constant.StringVal(k.Value)] = true
					}
				}
			}
		})
	}
	parseSet := map[string]bool{}
	if d, info := c.findDecl("triple/literal", "unboundBuilder.Parse"); d != nil {
		ast.Inspect(d.Body, func(n ast.Node) bool {
			if sw, ok := n.(*ast.SwitchStmt); ok && sw.Tag != nil {
				if tv := info.TypeOf(sw.Tag); tv != nil && types.Identical(tv.Underlying(), types.Typ[types.String]) {
					for _, cl := range sw.Body.List {
						for _, e := range cl.(*ast.CaseClause).List {
							if v, ok := info.Types[e]; ok && v.Value != nil {
								parseSet[constant.StringVal(v.Value)] = true
							}
						}
					}
				}
			}
			return true
		})
	}
	printSet := map[string]bool{}
	if d, info := c.findDecl("triple/literal", "Type.String"); d != nil {
		ast.Inspect(d.Body, func(n ast.Node) bool {
			if r, ok := n.(*ast.ReturnStmt); ok && len(r.Results) == 1 {
				if v, ok := info.Types[r.Results[0]]; ok && v.Value != nil {
					printSet[constant.StringVal(v.Value)] = true
				}
			}
			return true
		})
	}
	// the printer may have an extra fallback rendering for unknown types; compare on the lexer set
	for _, pair := range []struct {
		name string
		set  map[string]bool
	}{{"literal parser switch", parseSet}, {"literal.Type.String", printSet}} {
		var missing []string
		for s := range lexSet {
			if !pair.set[s] {
				missing = append(missing, s)
			}
		}
		var extra []string
		for s := range pair.set {
			if !lexSet[s] && pair.name == "literal parser switch" {
				extra = append(extra, s)
			}
		}
		sort.Strings(missing)
		sort.Strings(extra)
		key := "literal type names: lexer vs " + pair.name
		if len(lexSet) < 5 {
			c.undecided(key, token.NoPos, "only %d literal type names recognised in lexLiteral", len(lexSet))
		} else if len(missing)+len(extra) > 0 {
			c.bad(key, token.NoPos, "type names accepted by the lexer but unknown to %s: %v; known to it but rejected by the lexer: %v", pair.name, missing, extra)
		} else {
			c.ok(key, token.NoPos, "same %d type names", len(lexSet))
		}
	}
}
