package main

import (
	"fmt"
	"go/constant"
	"go/token"
	"go/types"
	"sort"
	"strings"

	"golang.org/x/tools/go/ssa"
)

// Rules added after the third round of seeded changes (DESIGN.md §0.2).

// ---- E3 evaluators keep no state ---------------------------------------------------------------------------------------------

func ruleE3(c *Ctx) {
	c.Rule("E3", "a HAVING evaluator is a function of the row alone: no Evaluate method of a semantic.Evaluator implementation stores into its receiver (or into anything reached from it), so what one row computed can never decide another row, and one evaluator can be used from several goroutines", 5)
	ev := c.mustNamed("bql/semantic", "Evaluator")
	if ev == nil {
		return
	}
	iface, ok := ev.Underlying().(*types.Interface)
	if !ok {
		c.undecided("semantic.Evaluator", token.NoPos, "not an interface any more")
		return
	}
	for _, n := range c.implementers(iface) {
		for _, fn := range c.methodsOf(n) {
			if fn.Name() != "Evaluate" || len(fn.Params) == 0 {
				continue
			}
			key := funcName(fn) + " is stateless"
			bad := ""
			walkHelpers(fn, 2, func(inFn *ssa.Function, in ssa.Instruction, _ ssa.Instruction) {
				var addr ssa.Value
				switch x := in.(type) {
				case *ssa.Store:
					addr = x.Addr
				case *ssa.MapUpdate:
					addr = x.Map
				}
				if addr == nil {
					return
				}
				if c.derivedFromParam(resolveParam(baseOfAddr(addr)), fn.Params[0], 0) {
					bad = c.pos(in.Pos())
				}
			})
			c.check(bad == "", key, fn.Pos(), "no store through the receiver", "Evaluate writes into its receiver at "+bad+": the result for a row depends on the rows evaluated before it (a check done only 'the first time' is skipped for every later row), and concurrent evaluation races")
		}
	}
}

// baseOfAddr strips field and index steps from an address: &x.f[i].g -> x.
func baseOfAddr(v ssa.Value) ssa.Value {
	for i := 0; i < 8; i++ {
		switch x := v.(type) {
		case *ssa.FieldAddr:
			v = x.X
		case *ssa.IndexAddr:
			v = x.X
		case *ssa.UnOp:
			if x.Op != token.MUL {
				return v
			}
			if _, isAlloc := x.X.(*ssa.Alloc); isAlloc {
				return v
			}
			v = x.X
		default:
			return v
		}
	}
	return v
}

// ---- E4 formatCell renders the cell's text as it stands --------------------------------------------------------------------------

func ruleE4(c *Ctx) {
	c.Rule("E4", "the HAVING evaluators compare the text a cell holds, not a rewritten copy: in formatCell the value handed to Build(Text, …) is the cell's string itself (no trimming, folding or replacement before the literal is built), so ids and types that differ only in blanks or case stay different", 1)
	fn := c.mustFunc("bql/semantic", "formatCell")
	if fn == nil {
		return
	}
	n := 0
	allInstrs(fn, func(in ssa.Instruction) {
		cc := callCommon(in)
		if cc == nil || !strings.HasSuffix(calleeName(cc), "Build") || len(cc.Args) < 2 {
			return
		}
		a := cc.Args[len(cc.Args)-1]
		if mi, ok := a.(*ssa.MakeInterface); ok {
			a = mi.X
		}
		if !types.Identical(a.Type().Underlying(), types.Typ[types.String]) {
			return
		}
		n++
		t := c.term(a)
		plain := !strings.Contains(t, "(")
		c.check(plain, "formatCell builds the text literal from the cell's own string", in.Pos(), "Build(Text, "+t+")", "formatCell builds the literal from "+truncate(t, 70)+", a rewritten copy of the cell's text: values that differ only in what the rewriting removes compare equal")
	})
	if n == 0 {
		c.undecided("formatCell text literal", fn.Pos(), "no Build call on a string found")
	}
}

// ---- A3 count counts every row ---------------------------------------------------------------------------------------------------

func ruleA3(c *Ctx) {
	c.Rule("A3", "count(?x) is the number of rows of the group: countAcc.Accumulate increments its state on every call — the increment lies on every path to every return, under no condition on the value it is given", 1)
	fn := c.mustFunc("bql/table", "countAcc.Accumulate")
	if fn == nil {
		return
	}
	fi := c.fi(fn)
	var inc ssa.Instruction
	allInstrs(fn, func(in ssa.Instruction) {
		st, ok := in.(*ssa.Store)
		if !ok {
			return
		}
		if _, isField := st.Addr.(*ssa.FieldAddr); !isField {
			return
		}
		if bo, ok := st.Val.(*ssa.BinOp); ok && bo.Op == token.ADD {
			if k, isC := constInt(bo.Y); isC && k == 1 {
				inc = in
			}
		}
	})
	key := "countAcc.Accumulate increments unconditionally"
	if inc == nil {
		c.bad(key, fn.Pos(), "countAcc.Accumulate no longer adds one to its state")
		return
	}
	ok := len(fn.Blocks) > 0 && fi.postDominates(inc.Block(), fn.Blocks[0])
	c.check(ok, key, inc.Pos(), "state++ post-dominates the entry", "the increment at "+c.pos(inc.Pos())+" is skipped on some path (a condition on the value): rows with an unbound or otherwise special value are not counted, so count is smaller than the number of solutions in the group")
}

// ---- A4 one result slot per aggregate ------------------------------------------------------------------------------------------------

func ruleA4(c *Ctx) {
	c.Rule("A4", "every aggregate of a group has its own result: in unsafeFullGroupRangeReduce the value an accumulator returns is stored under a key that includes the aggregate's output alias, so two aggregates over the same input binding (count(?o), sum(?o)) cannot overwrite each other", 1)
	n := 0
	for _, name := range []string{"Table.unsafeFullGroupRangeReduce"} { // groupRangeReduce (one accumulator per binding by construction) has no caller outside tests
		fn := c.lookupFunc("bql/table", name)
		if fn == nil {
			continue
		}
		walkHelpers(fn, 2, func(_ *ssa.Function, in ssa.Instruction, _ ssa.Instruction) {
			mu, ok := in.(*ssa.MapUpdate)
			if !ok {
				return
			}
			// the stored value is what Accumulate returned
			v := mu.Value
			if ex, ok := v.(*ssa.Extract); ok {
				v = ex.Tuple
			}
			call, ok := v.(*ssa.Call)
			if !ok || !call.Call.IsInvoke() || call.Call.Method.Name() != "Accumulate" {
				return
			}
			n++
			keys := c.term(mu.Key)
			if lk, ok := resolveParam(mu.Map).(*ssa.Lookup); ok {
				keys += " " + c.term(lk.Index)
			}
			if ex, ok := resolveParam(mu.Map).(*ssa.Extract); ok {
				if lk, ok := ex.Tuple.(*ssa.Lookup); ok {
					keys += " " + c.term(lk.Index)
				}
			}
			key := funcName(fn) + " keeps one result per aggregate"
			c.check(strings.Contains(keys, ".OutAlias"), key, in.Pos(), "stored under "+truncate(keys, 80), "the accumulator's result is stored under "+truncate(keys, 80)+", which does not include the aggregate's output alias: several aggregates over the same binding share one slot and all report the value of the last one")
		})
	}
	if n == 0 {
		c.undecided("accumulator result stores", token.NoPos, "no map store of an Accumulate result found in the group reducers")
	}
}

// ---- TB2 the product has |left| x |right| rows ------------------------------------------------------------------------------------------

func ruleTB2(c *Ctx) {
	c.Rule("TB2", "a cross product with an empty side is empty: the only rows Table.DotProduct ever assigns to the receiver are the slice it allocates with len(left)*len(right) entries — never the rows of one side alone", 1)
	fn := c.mustFunc("bql/table", "Table.DotProduct")
	if fn == nil {
		return
	}
	n := 0
	var bad []string
	allInstrs(fn, func(in ssa.Instruction) {
		st, ok := in.(*ssa.Store)
		if !ok {
			return
		}
		fa, ok := st.Addr.(*ssa.FieldAddr)
		if !ok || fieldName(fa.X.Type(), fa.Field) != "Data" || len(fn.Params) == 0 || !c.derivedFromParam(fa.X, fn.Params[0], 0) {
			return
		}
		n++
		ms, isMake := st.Val.(*ssa.MakeSlice)
		if !isMake {
			bad = append(bad, "stores "+truncate(c.term(st.Val), 60)+" at "+c.pos(in.Pos()))
			return
		}
		if bo, ok := ms.Len.(*ssa.BinOp); !ok || bo.Op != token.MUL || !strings.Contains(c.term(bo), "len(") {
			bad = append(bad, "allocates "+truncate(c.term(ms.Len), 60)+" rows at "+c.pos(in.Pos()))
		}
	})
	sort.Strings(bad)
	key := "DotProduct assigns only the full product"
	if n == 0 {
		c.undecided(key, fn.Pos(), "no store to the receiver's rows found")
		return
	}
	c.check(len(bad) == 0, key, fn.Pos(), fmt.Sprintf("%d store(s) to Data, each a slice of len(left)*len(right) rows", n), "DotProduct "+strings.Join(bad, "; ")+": with an empty left (or right) table the result is not empty, so an unmatched clause no longer empties the pattern and the answer depends on clause order")
}

// ---- P12c the limit flag read is the limit flag written -----------------------------------------------------------------------------------

func ruleP12c(c *Ctx) {
	c.Rule("P12c", "LIMIT 0 is a limit: Statement.IsLimitSet returns the flag that the LIMIT hook sets together with the value (a field stored true in the function that stores Statement.limit), not something computed from the value", 1)
	get := c.mustFunc("bql/semantic", "Statement.IsLimitSet")
	stT := c.mustNamed("bql/semantic", "Statement")
	if get == nil || stT == nil {
		return
	}
	key := "IsLimitSet returns the flag set by the LIMIT hook"
	var flag *types.Var
	for _, r := range c.returnsOf(get) {
		rv := resultValues(r)
		if u, ok := rv[0].(*ssa.UnOp); ok && u.Op == token.MUL {
			if fa, ok := u.X.(*ssa.FieldAddr); ok && namedOf(derefType(fa.X.Type())) == stT {
				flag = fieldVar(fa.X.Type(), fa.Field)
				continue
			}
		}
		c.bad(key, r.Pos(), "IsLimitSet returns %s, not a flag of the statement: a legitimate limit the expression maps to false (LIMIT 0) is ignored and every row is returned", truncate(c.term(rv[0]), 60))
		return
	}
	if flag == nil {
		c.undecided(key, get.Pos(), "no return found")
		return
	}
	// the writer of limit also sets the flag
	okW, nW := true, 0
	for _, fn := range c.srcFuncs("bql/semantic") {
		var limStore, flagStore ssa.Instruction
		allInstrs(fn, func(in ssa.Instruction) {
			st, ok := in.(*ssa.Store)
			if !ok {
				return
			}
			fa, ok := st.Addr.(*ssa.FieldAddr)
			if !ok || namedOf(derefType(fa.X.Type())) != stT {
				return
			}
			switch {
			case fieldName(fa.X.Type(), fa.Field) == "limit":
				limStore = in
			case fieldVar(fa.X.Type(), fa.Field) == flag:
				if k, ok := st.Val.(*ssa.Const); ok && k.Value != nil && k.Value.ExactString() == "true" {
					flagStore = in
				}
			}
		})
		if limStore == nil {
			continue
		}
		nW++
		if flagStore == nil || flagStore.Block() != limStore.Block() {
			okW = false
		}
	}
	c.check(okW && nW > 0, key, get.Pos(), "returns field "+flag.Name()+", stored true wherever limit is stored", "the field IsLimitSet returns ("+flag.Name()+") is not set to true in the function that stores the limit value")
}

// ---- S7b a batch is processed to its end -----------------------------------------------------------------------------------------------

func ruleS7b(c *Ctx) {
	c.Rule("S7b", "AddTriples and RemoveTriples of the index-owning graph handle every triple of the batch: no return statement lies inside the loop over the batch (the methods have no error to report, so leaving the loop early silently drops the rest of the batch)", 2)
	a := c.storeAnchors()
	if a == nil {
		return
	}
	owner, _ := c.indexOwner(a)
	if owner == nil {
		c.undecided("index owner", token.NoPos, "not found")
		return
	}
	for _, name := range []string{"AddTriples", "RemoveTriples"} {
		fn := methodByName(c, owner, name)
		if fn == nil {
			continue
		}
		fi := c.fi(fn)
		key := funcName(fn) + " handles the whole batch"
		bad := ""
		for _, r := range c.returnsOf(fn) {
			if fi.innermostLoop(r.Block().Index) != nil {
				bad = c.pos(r.Pos())
			}
		}
		// a return reached from inside the loop through a block outside it still leaves early: check loop exits
		for _, l := range fi.naturalLoops() {
			for bi := range l.blocks {
				for _, s := range fi.succs[bi] {
					if s >= fi.n || l.blocks[s] || bi == l.header {
						continue
					}
					// an exit edge from the body (not the loop condition)
					if _, isRet := fn.Blocks[s].Instrs[len(fn.Blocks[s].Instrs)-1].(*ssa.Return); isRet {
						bad = c.pos(fn.Blocks[s].Instrs[len(fn.Blocks[s].Instrs)-1].Pos())
					}
				}
			}
		}
		c.check(bad == "", key, fn.Pos(), "the only way out of the batch loop is its end", "the return at "+bad+" leaves the loop over the batch early: the remaining triples of the batch are neither added nor removed although the call reports success")
	}
}

// ---- H3z the bytes of a pooled buffer do not outlive it ------------------------------------------------------------------------------------

func ruleH3z(c *Ctx, rels ...string) {
	c.Rule("H3z", "what a pooled buffer holds is copied or consumed before the buffer goes back: the slice returned by Bytes() of a bytes.Buffer taken from a sync.Pool is only hashed, converted to a string, compared or copied — never stored in a value, returned or handed to a function that keeps it (the next user of the pool overwrites it)", 1)
	n := 0
	for _, fn := range c.srcFuncs(rels...) {
		// buffers obtained from a pool in this function
		pooled := map[ssa.Value]bool{}
		allInstrs(fn, func(in ssa.Instruction) {
			ta, ok := in.(*ssa.TypeAssert)
			if !ok {
				return
			}
			if call, ok := ta.X.(*ssa.Call); ok && isCallTo(&call.Call, "sync", "Get") && isNamed(derefType(ta.AssertedType), "bytes", "Buffer") {
				pooled[ta] = true
			}
		})
		if len(pooled) == 0 {
			continue
		}
		allInstrs(fn, func(in ssa.Instruction) {
			call, ok := in.(*ssa.Call)
			if !ok || !isCallTo(&call.Call, "bytes", "Bytes") || len(call.Call.Args) == 0 || !pooled[resolveParam(call.Call.Args[0])] || call.Referrers() == nil {
				return
			}
			n++
			key := fmt.Sprintf("%s keeps no reference to its pooled buffer's bytes", funcName(fn))
			bad := ""
			for _, r := range *call.Referrers() {
				switch x := r.(type) {
				case *ssa.Convert: // string(b) copies
				case *ssa.DebugRef:
				case *ssa.Call:
					cc := &x.Call
					switch {
					case isCallTo(cc, "github.com/pborman/uuid", "NewSHA1"), isCallTo(cc, "github.com/pborman/uuid", "NewMD5"),
						isCallTo(cc, "bytes", "Equal"), isCallTo(cc, "bytes", "Compare"), isBuiltinCall(cc, "len"):
					case isBuiltinCall(cc, "copy") && len(cc.Args) == 2 && cc.Args[1] == ssa.Value(call):
					case isBuiltinCall(cc, "append") && len(cc.Args) == 2 && cc.Args[1] == ssa.Value(call):
					default:
						if f := cc.StaticCallee(); f != nil && f.Pkg != nil && (strings.HasPrefix(f.Pkg.Pkg.Path(), "crypto/") || f.Pkg.Pkg.Path() == "hash") {
							break
						}
						bad = "handed to " + calleeName(cc) + " at " + c.pos(r.Pos())
					}
				default:
					bad = fmt.Sprintf("used by %T at %s", r, c.pos(r.Pos()))
				}
			}
			c.check(bad == "", key, in.Pos(), "hashed, converted, compared or copied only", "the slice returned by Bytes() of a pooled buffer is "+bad+": it still points into the buffer after it was given back to the pool, so a later user of the pool rewrites the bytes of a value that was already built")
		})
	}
	if n == 0 {
		c.undecided("pooled buffer Bytes() sites", token.NoPos, "none found in %v; the identity methods hash buffer.Bytes()", rels)
	}
}

// ---- N1 a parsed node has the type that was written ----------------------------------------------------------------------------------------

func ruleN1(c *Ctx) {
	c.Rule("N1", "node.Parse returns the node it read: the type given to NewNode is the result of NewType applied to the type text of the input (or to the constant blank type for _:id), and the id the result of NewID on the id text — no other value is substituted on any path", 1)
	fn := c.mustFunc("triple/node", "Parse")
	if fn == nil {
		return
	}
	n := 0
	walkHelpers(fn, 2, func(inFn *ssa.Function, in ssa.Instruction, _ ssa.Instruction) {
		call, ok := in.(*ssa.Call)
		if !ok || call.Call.StaticCallee() == nil || fnName(call.Call.StaticCallee()) != "NewNode" || len(call.Call.Args) != 2 {
			return
		}
		n++
		var leaves []ssa.Value
		leafSources(resolveParam(call.Call.Args[0]), map[ssa.Value]bool{}, &leaves)
		bad := ""
		for _, l := range leaves {
			ok := false
			src, isCall := l.(*ssa.Call)
			if ex, isEx := l.(*ssa.Extract); isEx && ex.Index == 0 {
				src, isCall = ex.Tuple.(*ssa.Call)
			}
			if isCall && src.Call.StaticCallee() != nil && fnName(src.Call.StaticCallee()) == "NewType" {
				ok = true
			}
			if !ok {
				bad = truncate(c.term(l), 60)
			}
		}
		key := funcName(inFn) + " builds the node from the parsed type"
		c.check(bad == "", key, in.Pos(), "the type is NewType(…)'s result on every path", "the type handed to NewNode can be "+bad+" instead of the parsed type text: a node whose printed type matches the condition is silently read back as a different node")
	})
	if n == 0 {
		c.undecided("node.Parse NewNode sites", fn.Pos(), "no call to NewNode found")
	}
}

// ---- N1b node.Parse validates what it returns -----------------------------------------------------------------------------------------------

func ruleN1b(c *Ctx) {
	c.Rule("N1b", "every node node.Parse returns went through the constructors that validate it: each non-nil *Node result is the result of NewNode, and the id handed to NewNode is the result of NewID (which rejects an empty id and ids containing the delimiters), so whatever Parse accepts prints to text Parse accepts again", 2)
	fn := c.mustFunc("triple/node", "Parse")
	if fn == nil {
		return
	}
	n := 0
	var visit func(f *ssa.Function, d int)
	seen := map[*ssa.Function]bool{}
	visit = func(f *ssa.Function, d int) {
		if seen[f] || d > 2 {
			return
		}
		seen[f] = true
		for _, r := range c.returnsOf(f) {
			rv := resultValues(r)
			if len(rv) == 0 || isNilConst(rv[0]) {
				continue
			}
			var leaves []ssa.Value
			leafSources(rv[0], map[ssa.Value]bool{}, &leaves)
			for _, l := range leaves {
				if isNilConst(l) {
					continue
				}
				src, isCall := l.(*ssa.Call)
				if ex, isEx := l.(*ssa.Extract); isEx {
					src, isCall = ex.Tuple.(*ssa.Call)
				}
				key := fmt.Sprintf("%s result #%d is a validated node", funcName(f), n+1)
				n++
				switch {
				case isCall && src.Call.StaticCallee() != nil && fnName(src.Call.StaticCallee()) == "NewNode":
					var idl []ssa.Value
					leafSources(src.Call.Args[1], map[ssa.Value]bool{}, &idl)
					okID := true
					for _, il := range idl {
						ic, isC := il.(*ssa.Call)
						if ex, isEx := il.(*ssa.Extract); isEx {
							ic, isC = ex.Tuple.(*ssa.Call)
						}
						if !isC || ic.Call.StaticCallee() == nil || fnName(ic.Call.StaticCallee()) != "NewID" {
							okID = false
						}
					}
					c.check(okID, key, r.Pos(), "NewNode(…, NewID(…))", "the id handed to NewNode at "+c.pos(src.Pos())+" is not the result of NewID: an empty id or one containing '<' or '>' is accepted and prints to text that does not parse back")
				case isCall && helperCallee(f, &src.Call) != nil && src.Call.StaticCallee().Signature.Results().Len() == 2:
					n--
					visit(src.Call.StaticCallee(), d+1)
				default:
					c.bad(key, r.Pos(), "node.Parse returns %s at %s, a node that was not built by NewNode from a validated type and id", truncate(c.term(l), 60), c.pos(r.Pos()))
				}
			}
		}
	}
	visit(fn, 0)
	if n < 2 {
		c.undecided("node.Parse results", fn.Pos(), "only %d non-nil results found", n)
	}
}

// ---- PT1 temporal means anchored --------------------------------------------------------------------------------------------------------------

func rulePT1(c *Ctx) {
	c.Rule("PT1", "a predicate is immutable exactly when it has no anchor: Predicate.Type returns Immutable only on the edge where the anchor field is nil and Temporal only where it is not, under no other condition (an anchor at any instant, the zero instant included, makes the predicate temporal)", 2)
	fn := c.mustFunc("triple/predicate", "Predicate.Type")
	if fn == nil {
		return
	}
	fi := c.fi(fn)
	pkg := c.pkg("triple/predicate")
	constVal := func(name string) (int64, bool) {
		if k, ok := pkg.Types.Scope().Lookup(name).(*types.Const); ok {
			v, _ := constInt64(k)
			return v, true
		}
		return 0, false
	}
	imm, ok1 := constVal("Immutable")
	tmp, ok2 := constVal("Temporal")
	if !ok1 || !ok2 {
		c.undecided("predicate kinds", fn.Pos(), "constants Immutable/Temporal not found")
		return
	}
	type retAt struct {
		val   int64
		facts []Fact
		pos   token.Pos
	}
	var rets []retAt
	for _, r := range c.returnsOf(fn) {
		switch x := resultValues(r)[0].(type) {
		case *ssa.Const:
			if v, ok := constInt(x); ok {
				rets = append(rets, retAt{v, fi.factsAt(r.Block()), r.Pos()})
			}
		case *ssa.Phi:
			for i, e := range x.Edges {
				v, ok := constInt(e)
				if !ok {
					continue
				}
				pb := x.Block().Preds[i]
				facts := fi.factsAt(pb)
				if iff, ok := pb.Instrs[len(pb.Instrs)-1].(*ssa.If); ok && pb.Succs[0] != pb.Succs[1] {
					facts = append(append([]Fact{}, facts...), expandFact(Fact{iff.Cond, pb.Succs[0] == x.Block()})...)
				}
				rets = append(rets, retAt{v, facts, r.Pos()})
			}
		default:
			c.bad("Predicate.Type returns a constant kind", r.Pos(), "Predicate.Type returns the computed value %s", truncate(c.term(resultValues(r)[0]), 60))
			return
		}
	}
	for _, rt := range rets {
		name, wantNil := "Temporal", false
		if rt.val == imm {
			name, wantNil = "Immutable", true
		} else if rt.val != tmp {
			continue
		}
		okFact, extra := false, ""
		for _, ft := range rt.facts {
			if _, isNot := ft.Cond.(*ssa.UnOp); isNot {
				continue
			}
			bo, ok := ft.Cond.(*ssa.BinOp)
			if ok && (bo.Op == token.EQL || bo.Op == token.NEQ) && isNilConst(bo.Y) && strings.HasSuffix(c.term(bo.X), ".anchor") {
				if ((bo.Op == token.EQL) == ft.Truth) == wantNil {
					okFact = true
				}
				continue
			}
			extra = truncate(c.term(ft.Cond), 60)
		}
		key := "Predicate.Type returns " + name + " exactly on anchor " + map[bool]string{true: "== nil", false: "!= nil"}[wantNil]
		c.check(okFact && extra == "", key, rt.pos, "decided by the anchor's presence alone", "Predicate.Type returns "+name+" under a condition other than the presence of the anchor ("+extra+"): some anchored predicate is treated as immutable (or the reverse), so lookups, identities and printing disagree about its kind")
	}
	if len(rets) < 2 {
		c.undecided("Predicate.Type returns", fn.Pos(), "only %d constant results found", len(rets))
	}
}

func constInt64(k *types.Const) (int64, bool) {
	v := k.Val()
	if v == nil {
		return 0, false
	}
	return constant.Int64Val(constant.ToInt(v))
}

// ---- T3 floats are printed and parsed as float64 -----------------------------------------------------------------------------------------------

func ruleT3(c *Ctx) {
	c.Rule("T3", "a float64 literal keeps all its digits: every strconv.FormatFloat/AppendFloat/ParseFloat in the value packages is given bit size 64 (32 rounds to float32 precision and range, so the printed form parses back to another value or to ±Inf)", 1)
	n := 0
	for _, fn := range c.srcFuncs("triple/...", "bql/table", "bql/semantic") {
		allInstrs(fn, func(in ssa.Instruction) {
			cc := callCommon(in)
			if cc == nil || cc.StaticCallee() == nil || cc.StaticCallee().Pkg == nil || cc.StaticCallee().Pkg.Pkg.Path() != "strconv" {
				return
			}
			bi := -1
			switch cc.StaticCallee().Name() {
			case "FormatFloat":
				bi = 3
			case "AppendFloat":
				bi = 4
			case "ParseFloat":
				bi = 1
			case "ParseInt", "FormatInt":
				// integers are written and read in base 10 (base 0 reads 010 as octal, 0x10 as hex, 1_0 as ten)
				if len(cc.Args) > 1 {
					n++
					k, isC := constInt(cc.Args[1])
					c.check(isC && k == 10, fmt.Sprintf("%s strconv.%s #%d uses base 10", funcName(fn), cc.StaticCallee().Name(), n), in.Pos(), "base 10", "strconv."+cc.StaticCallee().Name()+" at "+c.pos(in.Pos())+" is not given base 10: the text of an int64 literal is read in another base (or with automatic base detection), so \"010\"^^type:int64 is not ten")
				}
				return
			}
			if bi < 0 || bi >= len(cc.Args) {
				return
			}
			n++
			k, isC := constInt(cc.Args[bi])
			c.check(isC && k == 64, fmt.Sprintf("%s strconv.%s #%d uses 64 bits", funcName(fn), cc.StaticCallee().Name(), n), in.Pos(), "bitSize 64", "strconv."+cc.StaticCallee().Name()+" at "+c.pos(in.Pos())+" is not given bit size 64: values beyond float32 precision or range do not survive printing and parsing")
		})
	}
	if n == 0 {
		c.undecided("float conversions", token.NoPos, "no strconv float conversion found")
	}
}

// ---- TB3 projecting columns keeps the rows ----------------------------------------------------------------------------------------------------

func ruleTB3(c *Ctx) {
	c.Rule("TB3", "restricting a table to some of its bindings changes its columns, never its rows: Table.ProjectBindings (and AddBindings) do not assign the row slice — a projection onto no binding at all still has one (empty) row per solution, which is what a constant-only CONSTRUCT template is instantiated for", 1)
	n := 0
	for _, name := range []string{"Table.ProjectBindings", "Table.AddBindings"} {
		fn := c.lookupFunc("bql/table", name)
		if fn == nil {
			continue
		}
		n++
		bad := ""
		walkHelpers(fn, 2, func(_ *ssa.Function, in ssa.Instruction, _ ssa.Instruction) {
			if st, ok := in.(*ssa.Store); ok {
				if fa, ok := st.Addr.(*ssa.FieldAddr); ok && fieldName(fa.X.Type(), fa.Field) == "Data" && isNamed(derefType(fa.X.Type()), modPath+"/bql/table", "Table") {
					bad = c.pos(in.Pos())
				}
			}
		})
		c.check(bad == "", funcName(fn)+" leaves the rows alone", fn.Pos(), "no store to Data", "the row slice is assigned at "+bad+": a projection can drop solutions, so a statement instantiated once per solution (CONSTRUCT/DECONSTRUCT with a constant template) does nothing")
	}
	if n == 0 {
		c.undecided("Table.ProjectBindings", token.NoPos, "not found")
	}
}

// ---- HK2 the binding checker checks before it accepts --------------------------------------------------------------------------------------------

func ruleHK2(c *Ctx) {
	c.Rule("HK2", "a statement whose template or projection uses a binding the pattern does not provide is rejected when it is parsed: every success return of the bindingsGraphChecker hook is dominated by its reads of Statement.InputBindings() and Statement.BindingsMap() (the validation cannot be skipped by an early exit)", 1)
	outer := c.mustFunc("bql/semantic", "bindingsGraphChecker")
	if outer == nil {
		return
	}
	n := 0
	for _, fn := range outer.AnonFuncs {
		fi := c.fi(fn)
		var need []ssa.Instruction
		allInstrs(fn, func(in ssa.Instruction) {
			if call, ok := in.(*ssa.Call); ok && call.Call.StaticCallee() != nil {
				switch call.Call.StaticCallee().Name() {
				case "InputBindings", "BindingsMap":
					need = append(need, in)
				}
			}
		})
		n++
		key := funcName(fn) + " validates before accepting"
		if len(need) < 2 {
			c.bad(key, fn.Pos(), "the hook no longer reads both the bindings a statement uses (InputBindings) and those its pattern provides (BindingsMap)")
			continue
		}
		bad := ""
		for _, r := range c.returnsOf(fn) {
			rv := resultValues(r)
			if !isNilConst(rv[len(rv)-1]) {
				continue
			}
			for _, nd := range need {
				if !fi.instrDominates(nd, r) {
					bad = c.pos(r.Pos())
				}
			}
		}
		c.check(bad == "", key, fn.Pos(), "every success return comes after both reads", "the hook can return success at "+bad+" without having compared the bindings used with the bindings provided: an invalid statement is accepted and fails (or half-executes) later")
	}
	if n == 0 {
		c.undecided("bindingsGraphChecker hook", outer.Pos(), "no closure found")
	}
}

// ---- H4 identity methods keep no state ------------------------------------------------------------------------------------------------------

func ruleH4(c *Ctx) {
	c.Rule("H4", "computing an identity changes nothing: no UUID/PartialUUID method (nor a same-package helper it calls) stores into its receiver — values are shared between goroutines and between the caller and the store, so a lazily cached identity is a data race and hands out a slice callers can modify", 5)
	for _, fn := range c.hashMethods() {
		if len(fn.Params) == 0 {
			continue
		}
		key := funcName(fn) + " does not write its receiver"
		bad := ""
		walkHelpers(fn, 2, func(inFn *ssa.Function, in ssa.Instruction, _ ssa.Instruction) {
			var addr ssa.Value
			switch x := in.(type) {
			case *ssa.Store:
				addr = x.Addr
			case *ssa.MapUpdate:
				addr = x.Map
			}
			if addr == nil {
				return
			}
			if c.derivedFromParam(resolveParam(baseOfAddr(addr)), fn.Params[0], 0) {
				bad = c.pos(in.Pos())
			}
		})
		c.check(bad == "", key, fn.Pos(), "no store through the receiver", "the identity method stores into its receiver at "+bad+": concurrent callers race on the field, and a cached identity is returned by reference so that a caller can change what every later call answers")
	}
}

// ---- S3d guarded state is touched only by its owner -------------------------------------------------------------------------------------------

func ruleS3d(c *Ctx) {
	c.Rule("S3d", "the fields a lock guards are accessed only where that lock can be held: every read or write of a guarded field of a lock-owning type (graph indexes, namespace map, memoizer caches, table rows) is in a method of that type (or a closure of one), or on an object allocated in the same function; code of another type that reaches into the fields does so under the wrong lock or none", 1)
	n := 0
	for _, o := range c.lockOwners() {
		own := map[*ssa.Function]bool{}
		for _, m := range c.methodsOf(o.named) {
			withClosures(m, func(f *ssa.Function) { own[f] = true })
		}
		for _, fn := range c.srcFuncs() {
			if own[fn] {
				continue
			}
			// functions of the owner's package that take the owner as an explicit parameter are its helpers
			top := fn
			for top.Parent() != nil {
				top = top.Parent()
			}
			helper := false
			for _, p := range top.Params {
				if namedOf(derefType(p.Type())) == o.named {
					helper = true
				}
			}
			for _, a := range guardedAccesses(fn, o.guarded) {
				if fa := accessBase(a.instr); fa != nil && isFreshBase(fa) {
					continue
				}
				n++
				if helper {
					continue // judged by S3 through its callers' lock state / tableSequentialOnly
				}
				c.bad(fmt.Sprintf("%s touches %s.%s", funcName(fn), o.named.Obj().Name(), a.field.Name()), a.instr.Pos(), "%s at %s %s field %s of a %s it did not create, outside the methods of %s: the lock that guards the field (%s) is not the one this code holds, so users of the object race with it or find the structure torn down", funcName(fn), c.pos(a.instr.Pos()), map[bool]string{true: "writes", false: "reads"}[a.write], a.field.Name(), o.named.Obj().Name(), o.named.Obj().Name(), o.lock.Name())
			}
		}
	}
	c.ok("guarded fields stay inside their owner", token.NoPos, "%d accesses from outside the owners' methods, all by helpers that take the owner as a parameter", n)
}

// ---- H3w a pooled value is not kept ----------------------------------------------------------------------------------------------------------------

func ruleH3w(c *Ctx, rels ...string) {
	c.Rule("H3w", "what is taken from a sync.Pool goes back and nowhere else: a value obtained from Pool.Get (or a slice, append or alias of it) is never stored into a field, map, package variable or channel nor returned — the next Get hands the same memory to someone else, who overwrites whatever kept the reference (a cached answer, a built literal)", 4)
	n := 0
	for _, fn := range c.srcFuncs(rels...) {
		var seeds []ssa.Value
		allInstrs(fn, func(in ssa.Instruction) {
			if call, ok := in.(*ssa.Call); ok && isCallTo(&call.Call, "sync", "Get") {
				seeds = append(seeds, call)
			}
		})
		for _, seed := range seeds {
			n++
			key := fmt.Sprintf("%s keeps no reference to its pooled value #%d", funcName(fn), n)
			bad := ""
			seen := map[ssa.Value]bool{}
			var follow func(v ssa.Value, d int)
			follow = func(v ssa.Value, d int) {
				if seen[v] || d > 10 || v.Referrers() == nil {
					return
				}
				seen[v] = true
				for _, r := range *v.Referrers() {
					switch x := r.(type) {
					case *ssa.TypeAssert, *ssa.ChangeType, *ssa.Slice, *ssa.Phi, *ssa.MakeInterface, *ssa.Extract:
						follow(x.(ssa.Value), d+1)
					case *ssa.Call:
						if isBuiltinCall(&x.Call, "append") && x.Call.Args[0] == v {
							follow(x, d+1)
						}
					case *ssa.Store:
						if x.Val != v {
							continue
						}
						switch a := x.Addr.(type) {
						case *ssa.Alloc:
							// a local variable: follow its loads (also from closures capturing it)
							for _, lr := range *a.Referrers() {
								if u, ok := lr.(*ssa.UnOp); ok && u.Op == token.MUL {
									follow(u, d+1)
								}
							}
						default:
							bad = "stored at " + c.pos(x.Pos())
						}
					case *ssa.MapUpdate:
						if x.Value == v {
							bad = "stored into a map at " + c.pos(x.Pos())
						}
					case *ssa.Send:
						if x.X == v {
							bad = "sent on a channel at " + c.pos(x.Pos())
						}
					case *ssa.Return:
						// an unexported helper that only fetches (and resets) the pooled value: the obligation moves to
						// its callers, where the value is followed on
						h := x.Parent()
						idx := c.callSites()
						if h.Parent() == nil && !token.IsExported(h.Name()) && !idx.escapes[h] && len(idx.sites[h]) > 0 {
							for _, site := range idx.sites[h] {
								if cv, ok := site.(ssa.Value); ok {
									follow(cv, d+1)
								}
							}
						} else {
							bad = "returned at " + c.pos(x.Pos())
						}
					}
				}
			}
			follow(seed, 0)
			c.check(bad == "", key, seed.Pos(), "used locally and put back", "a value taken from the pool (or a slice of it) is "+bad+" while it is also given back to the pool: the next user of the pool overwrites memory that a cache entry or a built value still points to")
		}
	}
	if n < 4 {
		c.undecided("sync.Pool Get sites", token.NoPos, "only %d found; 4 confirmed by reading (node, literal, triple, storage)", n)
	}
}

// ---- X9 only the dispatcher looks at the previous token --------------------------------------------------------------------------------------

func ruleX9(c *Ctx) {
	c.Rule("X9", "what a piece of text is lexed as depends on the previous token only where the dispatcher says so: the lexer's lastTokenType is read in lexToken alone (time stamps after BEFORE/AFTER/BETWEEN and after comparison operators, function names after FILTER) — a state function that consults it rejects or re-classifies a token according to context, which makes grammar alternatives unreachable that the table still lists", 1)
	a := c.lexAnchors()
	if a == nil {
		return
	}
	n := 0
	var bad []string
	for _, fn := range a.cursorFns {
		allInstrs(fn, func(in ssa.Instruction) {
			u, ok := in.(*ssa.UnOp)
			if !ok || u.Op != token.MUL {
				return
			}
			fa, ok := u.X.(*ssa.FieldAddr)
			if !ok || fieldName(fa.X.Type(), fa.Field) != "lastTokenType" {
				return
			}
			n++
			if fnName(fn) != "lexToken" {
				bad = append(bad, funcName(fn)+" at "+c.pos(in.Pos()))
			}
		})
	}
	sort.Strings(bad)
	if n == 0 {
		c.undecided("reads of lastTokenType", token.NoPos, "none found")
		return
	}
	c.check(len(bad) == 0, "lastTokenType is read only by lexToken", token.NoPos, fmt.Sprintf("%d reads, all in the dispatcher", n), "the previous token's type is consulted by "+strings.Join(uniq(bad), ", ")+": the same text is lexed differently (or rejected) depending on what precedes it, outside the three documented cases")
}

// ---- P3c a clause that binds nothing joins nothing ------------------------------------------------------------------------------------------

func ruleP3c(c *Ctx) {
	c.Rule("P3c", "a fully specified clause (no binding, no alias) only has to hold, wherever it stands in the pattern: in processClause's specificity-3 branch the table of the existence test is appended to the running table only after the running table's bindings were examined (Table.AppendTable refuses a table with other bindings, so an unconditional append makes the statement fail as soon as an earlier clause has bound something)", 1)
	fn := c.mustFunc("bql/planner", "queryPlan.processClause")
	if fn == nil {
		return
	}
	fi := c.fi(fn)
	n := 0
	// path state: has the running table (p.tbl) been examined, or is the clause known to bring bindings of its own
	// (the alias case, which is the known finding P4a and not this rule's business)?
	mentionsRunning := func(t string) bool {
		return strings.Contains(t, "param:p.tbl") && (strings.Contains(t, ".Bindings(") || strings.Contains(t, ".HasBinding(") || strings.Contains(t, ".NumRows("))
	}
	edge := func(st bool, b *ssa.BasicBlock, si int) (bool, bool) {
		iff, ok := b.Instrs[len(b.Instrs)-1].(*ssa.If)
		if !ok {
			return st, true
		}
		t := c.term(iff.Cond)
		if mentionsRunning(t) {
			return true, true
		}
		// len(<existence table>.Bindings()) == 0 false, or > 0 true: the clause has bindings of its own
		if strings.Contains(t, ".Bindings(") && strings.Contains(t, "simpleExist(") {
			if bo, ok := iff.Cond.(*ssa.BinOp); ok {
				hasOwn := (bo.Op == token.EQL && si == 1) || (bo.Op == token.GTR && si == 0) || (bo.Op == token.NEQ && si == 0)
				if hasOwn {
					return true, true
				}
			}
		}
		return st, true
	}
	_, at := flow(c, fn, false, func(st bool, _ ssa.Instruction) bool { return st }, edge)
	allInstrs(fn, func(in ssa.Instruction) {
		call, ok := in.(*ssa.Call)
		if !ok || call.Call.StaticCallee() == nil || fnName(call.Call.StaticCallee()) != "AppendTable" {
			return
		}
		spec3 := false
		for _, ft := range fi.factsAt(in.Block()) {
			t := c.term(ft.Cond)
			if strings.Contains(t, "Specificity(") && strings.Contains(t, "== 3") && ft.Truth {
				spec3 = true
			}
		}
		if !spec3 {
			return
		}
		n++
		guarded := !at(in)[false]
		c.check(guarded, "processClause appends a fully specified clause only after looking at the running table", in.Pos(), "every path to the append examined the running table's bindings (or the clause brings bindings of its own)", "the existence table of a fully specified clause is appended to the running table at "+c.pos(in.Pos())+" whatever that table already holds: with an earlier clause's bindings in it AppendTable returns an error, so { ?s \"p\"@[] ?o . /u<a> \"p\"@[] /u<b> } fails while the reversed order answers")
	})
	if n == 0 {
		c.trivial("AppendTable in the fully specified branch", fn.Pos(), "the branch no longer appends")
	}
}

// ---- S7c a batch decides on what it sees under its own lock -----------------------------------------------------------------------------------

func ruleS7c(c *Ctx) {
	c.Rule("S7c", "AddTriples and RemoveTriples of the index-owning graph look at the graph only inside their own critical section: they call no other method of the same graph (a lookup such as Exist made before taking the write lock decides on a state that a concurrent writer can change — the batch then takes effect partially; made while holding it, it re-enters the lock)", 2)
	a := c.storeAnchors()
	if a == nil {
		return
	}
	owner, _ := c.indexOwner(a)
	if owner == nil {
		c.undecided("index owner", token.NoPos, "not found")
		return
	}
	for _, name := range []string{"AddTriples", "RemoveTriples"} {
		fn := methodByName(c, owner, name)
		if fn == nil || len(fn.Params) == 0 {
			continue
		}
		key := funcName(fn) + " calls no other method of its graph"
		bad := ""
		walkHelpers(fn, 2, func(_ *ssa.Function, in ssa.Instruction, _ ssa.Instruction) {
			cc := callCommon(in)
			if cc == nil {
				return
			}
			callee := cc.StaticCallee()
			if callee == nil || callee.Signature.Recv() == nil || namedOf(derefType(callee.Signature.Recv().Type())) != owner || len(cc.Args) == 0 {
				return
			}
			if token.IsExported(callee.Name()) && c.derivedFromParam(resolveParam(cc.Args[0]), fn.Params[0], 0) {
				bad = callee.Name() + " at " + c.pos(in.Pos())
			}
		})
		c.check(bad == "", key, fn.Pos(), "the batch reads and writes the indexes directly, under its own lock", "the batch method calls "+bad+" on the same graph: what that call saw can change before (or because) the batch takes the write lock, so a concurrent add/remove makes the batch apply only in part")
	}
}

// ---- T4 the size limit is the same on the way in and on the way out ---------------------------------------------------------------------------

func ruleT4(c *Ctx) {
	c.Rule("T4", "a bounded literal builder accepts when parsing exactly what it accepts when building: every comparison of a length with the builder's max in boundedBuilder.Build and boundedBuilder.Parse uses the same operator (a literal of exactly max bytes that can be built and printed must parse back)", 1)
	bb := c.mustNamed("triple/literal", "boundedBuilder")
	if bb == nil {
		return
	}
	ops := map[string][]string{}
	for _, fn := range c.methodsOf(bb) {
		allInstrs(fn, func(in ssa.Instruction) {
			bo, ok := in.(*ssa.BinOp)
			if !ok {
				return
			}
			tx, ty := c.term(bo.X), c.term(bo.Y)
			op := bo.Op
			switch {
			case strings.Contains(tx, "len(") && strings.HasSuffix(ty, ".max"):
			case strings.Contains(ty, "len(") && strings.HasSuffix(tx, ".max"):
				// mirror so that the length is on the left
				op = map[token.Token]token.Token{token.LSS: token.GTR, token.GTR: token.LSS, token.LEQ: token.GEQ, token.GEQ: token.LEQ, token.EQL: token.EQL, token.NEQ: token.NEQ}[op]
			default:
				return
			}
			ops[op.String()] = append(ops[op.String()], funcName(fn)+" at "+c.pos(in.Pos()))
		})
	}
	var ks []string
	n := 0
	for k, v := range ops {
		ks = append(ks, k+" in "+strings.Join(v, ", "))
		n += len(v)
	}
	sort.Strings(ks)
	if n < 2 {
		c.undecided("boundedBuilder size checks", token.NoPos, "only %d comparisons with max found", n)
		return
	}
	c.check(len(ops) == 1, "boundedBuilder compares sizes with one operator", bb.Obj().Pos(), fmt.Sprintf("%d comparisons, all `len %s max`", n, strings.SplitN(ks[0], " ", 2)[0]), "the size checks of the bounded builder disagree: "+strings.Join(ks, "; ")+" — a literal of exactly max bytes passes one and fails the other, so what Build produces does not parse back")
}

// ---- IE1 IsEmpty looks at the whole value -----------------------------------------------------------------------------------------------------

func ruleIE1(c *Ctx) {
	c.Rule("IE1", "a clause or pair counts as empty only if nothing in it is set: every IsEmpty method of the semantic package compares the whole value with its zero value (reflect.DeepEqual) or reads every field of its receiver's struct — a method that looks at some fields only drops parts that set just the others", 4)
	n := 0
	for _, fn := range c.srcFuncs("bql/semantic") {
		if fn.Name() != "IsEmpty" || fn.Signature.Recv() == nil || fn.Parent() != nil {
			continue
		}
		named := namedOf(derefType(fn.Signature.Recv().Type()))
		if named == nil {
			continue
		}
		st, ok := named.Underlying().(*types.Struct)
		if !ok {
			continue
		}
		n++
		key := funcName(fn) + " looks at every field"
		deep := false
		read := map[int]bool{}
		allInstrs(fn, func(in ssa.Instruction) {
			if cc := callCommon(in); cc != nil && isCallTo(cc, "reflect", "DeepEqual") {
				deep = true
			}
			if fa, ok := in.(*ssa.FieldAddr); ok && namedOf(derefType(fa.X.Type())) == named {
				read[fa.Field] = true
			}
		})
		var missing []string
		for i := 0; i < st.NumFields(); i++ {
			if !read[i] {
				missing = append(missing, st.Field(i).Name())
			}
		}
		c.check(deep || len(missing) == 0, key, fn.Pos(), "whole-value comparison or every field read", fmt.Sprintf("%s does not look at field(s) %v: a %s that sets only those is taken for empty and silently dropped", funcName(fn), missing, named.Obj().Name()))
	}
	if n < 4 {
		c.undecided("IsEmpty methods", token.NoPos, "only %d found", n)
	}
}

// ---- N2 what is validated is what is stored ------------------------------------------------------------------------------------------------------

func ruleN2(c *Ctx) {
	c.Rule("N2", "node.NewID and node.NewType return the text they checked: the string converted into the returned ID/Type is the very value the emptiness and character tests were applied to (normalising — trimming, folding — after the checks can produce an empty or malformed value that never saw them)", 2)
	for _, name := range []string{"NewID", "NewType"} {
		fn := c.mustFunc("triple/node", name)
		if fn == nil {
			continue
		}
		key := "node." + name + " stores the text it validated"
		// the operand of the emptiness test
		tested := ""
		allInstrs(fn, func(in ssa.Instruction) {
			if bo, ok := in.(*ssa.BinOp); ok && (bo.Op == token.EQL || bo.Op == token.NEQ) {
				if k, ok := bo.Y.(*ssa.Const); ok && k.Value != nil && k.Value.Kind() == constant.String && constant.StringVal(k.Value) == "" {
					tested = c.term(bo.X)
				}
			}
		})
		if tested == "" {
			c.bad(key, fn.Pos(), "node.%s no longer tests its text for emptiness", name)
			continue
		}
		bad := ""
		allInstrs(fn, func(in ssa.Instruction) {
			// the conversion string -> ID/Type that feeds the result
			cv, ok := in.(*ssa.ChangeType)
			if !ok {
				if cv2, ok2 := in.(*ssa.Convert); ok2 && types.Identical(cv2.X.Type().Underlying(), types.Typ[types.String]) && namedOf(cv2.Type()) != nil {
					if t := c.term(cv2.X); t != tested {
						bad = truncate(t, 60)
					}
				}
				return
			}
			if types.Identical(cv.X.Type().Underlying(), types.Typ[types.String]) && namedOf(cv.Type()) != nil {
				if t := c.term(cv.X); t != tested {
					bad = truncate(t, 60)
				}
			}
		})
		c.check(bad == "", key, fn.Pos(), "the converted text is the tested one ("+tested+")", "node."+name+" validates "+tested+" but stores "+bad+": the stored text never went through the checks (a blank id becomes an empty one; the node prints to text that does not parse back)")
	}
}

// ---- S6c every copy of the lookup options carries the same fields ---------------------------------------------------------------------------------

func ruleS6c(c *Ctx) {
	c.Rule("S6c", "the planner's private copies of the lookup options agree on what they copy: every storage.LookupOptions value constructed in bql/planner from another options value sets the same set of fields (a copy that lists fewer fields silently drops, for instance, the FILTER installed for the clause)", 1)
	lo := c.mustNamed("storage", "LookupOptions")
	if lo == nil {
		return
	}
	type cp struct {
		fn     *ssa.Function
		pos    token.Pos
		fields []string
	}
	var copies []cp
	for _, fn := range c.srcFuncs("bql/planner") {
		allInstrs(fn, func(in ssa.Instruction) {
			al, ok := in.(*ssa.Alloc)
			if !ok || namedOf(derefType(al.Type())) != lo || al.Referrers() == nil {
				return
			}
			set := map[string]bool{}
			fromOther := false
			for _, r := range *al.Referrers() {
				fa, ok := r.(*ssa.FieldAddr)
				if !ok || fa.Referrers() == nil {
					continue
				}
				for _, r2 := range *fa.Referrers() {
					if st, ok := r2.(*ssa.Store); ok && st.Addr == ssa.Value(fa) && st.Block() == al.Block() {
						set[fieldName(fa.X.Type(), fa.Field)] = true
						if strings.Contains(c.term(st.Val), "param:") {
							fromOther = true
						}
					}
				}
			}
			if fromOther {
				copies = append(copies, cp{fn, in.Pos(), keys(set)})
			}
		})
	}
	if len(copies) == 0 {
		c.undecided("copies of LookupOptions in the planner", token.NoPos, "none found; updateTimeBounds was confirmed by reading")
		return
	}
	ref := strings.Join(copies[0].fields, ",")
	for _, x := range copies {
		if len(x.fields) > len(strings.Split(ref, ",")) {
			ref = strings.Join(x.fields, ",")
		}
	}
	for i, x := range copies {
		got := strings.Join(x.fields, ",")
		c.check(got == ref, fmt.Sprintf("%s options copy #%d carries every field", funcName(x.fn), i+1), x.pos, "fields "+got, "the options copy made at "+c.pos(x.pos)+" sets only ["+got+"] while another copy in the planner sets ["+ref+"]: what the shorter list leaves out (e.g. the clause's FILTER) is silently dropped for this lookup")
	}
}

// ---- R1 nothing branches on the number of processors ----------------------------------------------------------------------------------------------

func ruleR1(c *Ctx, rels ...string) {
	c.Rule("R1", "the engine does the same thing on one processor as on sixteen: the value of runtime.GOMAXPROCS/NumCPU is used only to size channels, semaphores and worker pools — it never reaches the condition of a branch, so no code path exists for one processor count only", 0)
	n := 0
	for _, fn := range c.srcFuncs(rels...) {
		allInstrs(fn, func(in ssa.Instruction) {
			call, ok := in.(*ssa.Call)
			if !ok || !(isCallTo(&call.Call, "runtime", "GOMAXPROCS") || isCallTo(&call.Call, "runtime", "NumCPU")) {
				return
			}
			n++
			bad := ""
			seen := map[ssa.Value]bool{}
			var follow func(v ssa.Value, d int)
			follow = func(v ssa.Value, d int) {
				if seen[v] || d > 6 || v.Referrers() == nil {
					return
				}
				seen[v] = true
				for _, r := range *v.Referrers() {
					switch x := r.(type) {
					case *ssa.If:
						bad = c.pos(x.Pos())
						if !x.Pos().IsValid() {
							bad = c.pos(v.Pos())
						}
					case *ssa.BinOp:
						follow(x, d+1)
					case *ssa.Convert:
						follow(x, d+1)
					case *ssa.Phi:
						follow(x, d+1)
					case *ssa.Store:
						if al, ok := x.Addr.(*ssa.Alloc); ok && x.Val == v {
							for _, lr := range *al.Referrers() {
								if u, ok := lr.(*ssa.UnOp); ok && u.Op == token.MUL {
									follow(u, d+1)
								}
							}
						}
					}
				}
			}
			follow(call, 0)
			c.check(bad == "", fmt.Sprintf("%s uses the processor count for sizing only (#%d)", funcName(fn), n), in.Pos(), "never compared or branched on", "the number of processors read at "+c.pos(in.Pos())+" decides a branch at "+bad+": there is a code path that exists for some processor counts only, so results can depend on GOMAXPROCS")
		})
	}
	if n == 0 {
		c.trivial("processor count", token.NoPos, "not read in %v", rels)
	}
}

// ---- P8c a failed read fails the statement ----------------------------------------------------------------------------------------------------------

func ruleP8c(c *Ctx) {
	c.Rule("P8c", "in the planner the error of a fetch ends the function with an error on every path: from the edge on which the error of simpleFetch/simpleExist/addTriples/update or of a driver call is known non-nil, no return with a nil error is reachable (except through the reviewed 'skippable' type test) — a failed read is never turned into an empty or partial table, whatever the clause (OPTIONAL included)", 4)
	n := 0
	for _, fn := range c.srcFuncs("bql/planner") {
		fi := c.fi(fn)
		allInstrs(fn, func(in ssa.Instruction) {
			iff, ok := in.(*ssa.If)
			if !ok {
				return
			}
			bo, ok := iff.Cond.(*ssa.BinOp)
			if !ok || (bo.Op != token.NEQ && bo.Op != token.EQL) || !isNilConst(bo.Y) {
				return
			}
			// the tested value is the error result of a fetch or driver call
			var src *ssa.Call
			switch x := bo.X.(type) {
			case *ssa.Extract:
				src, _ = x.Tuple.(*ssa.Call)
			case *ssa.Call:
				src = x
			}
			if src == nil || !types.Identical(bo.X.Type(), types.Universe.Lookup("error").Type()) {
				return
			}
			isFetch := false
			if src.Call.IsInvoke() && (isNamed(src.Call.Value.Type(), modPath+"/storage", "Graph") || isNamed(src.Call.Value.Type(), modPath+"/storage", "Store")) {
				isFetch = true
			}
			if f := src.Call.StaticCallee(); f != nil && f.Pkg != nil && f.Pkg.Pkg.Path() == modPath+"/bql/planner" {
				switch fnName(f) {
				case "simpleFetch", "simpleExist", "addTriples", "update", "addSpecifiedData", "specifyClauseWithTable", "processClause", "processGraphPattern":
					isFetch = true
				}
			}
			if !isFetch {
				return
			}
			// only functions that can report an error
			if errorResultIndex(fn.Signature) < 0 {
				return
			}
			n++
			errEdge := 0
			if bo.Op == token.EQL {
				errEdge = 1
			}
			start := in.Block().Succs[errEdge]
			// reachability from the error edge, not passing through a type test of the error (the skippable case)
			seen := map[int]bool{}
			stack := []int{start.Index}
			bad := ""
			for len(stack) > 0 {
				bi := stack[len(stack)-1]
				stack = stack[:len(stack)-1]
				if bi >= fi.n || seen[bi] {
					continue
				}
				seen[bi] = true
				b := fn.Blocks[bi]
				typed := false
				for _, i2 := range b.Instrs {
					if ta, ok := i2.(*ssa.TypeAssert); ok && ta.X == bo.X {
						typed = true
					}
					if r, ok := i2.(*ssa.Return); ok {
						rv := resultValues(r)
						if isNilConst(rv[len(rv)-1]) {
							bad = c.pos(r.Pos())
						}
					}
				}
				if typed {
					continue
				}
				// leaving through the loop back edge of an enclosing loop re-tests nothing: stop at blocks that dominate the test
				for _, s := range fi.succs[bi] {
					if s < fi.n && !fi.dominates(fn.Blocks[s], in.Block()) {
						stack = append(stack, s)
					}
				}
			}
			c.check(bad == "", fmt.Sprintf("%s propagates the error tested at line %d", funcName(fn), c.Fset.Position(in.Pos()).Line), in.Pos(), "no success return is reachable from the error edge", "from the edge on which the error of "+calleeName(&src.Call)+" is non-nil the function can still return success at "+bad+": a failed read is reported as an (empty or partial) result")
		})
	}
	if n < 4 {
		c.undecided("tested fetch errors in the planner", token.NoPos, "only %d found", n)
	}
}

// ---- P8d a goroutine's error is looked at before success is reported -----------------------------------------------------------------------------------

func ruleP8d(c *Ctx) {
	c.Rule("P8d", "the error a producer goroutine leaves in a captured variable is examined before the spawning function reports success: every return with a nil error that comes after the go statement is dominated by the 'variable is nil' edge of a test of that variable (an early return between the join and the test reports a partial read as complete)", 4)
	n := 0
	for _, fn := range c.srcFuncs("bql/planner", "io") {
		if errorResultIndex(fn.Signature) < 0 {
			continue
		}
		fi := c.fi(fn)
		allInstrs(fn, func(in ssa.Instruction) {
			g, ok := in.(*ssa.Go)
			if !ok {
				return
			}
			mc, ok := g.Call.Value.(*ssa.MakeClosure)
			if !ok {
				return
			}
			tgt := mc.Fn.(*ssa.Function)
			// captured error cells the goroutine assigns
			for i, fv := range tgt.FreeVars {
				pt, ok := fv.Type().Underlying().(*types.Pointer)
				if !ok || !types.Identical(pt.Elem(), types.Universe.Lookup("error").Type()) || i >= len(mc.Bindings) {
					continue
				}
				assigned := false
				allInstrs(tgt, func(i2 ssa.Instruction) {
					if st, ok := i2.(*ssa.Store); ok && st.Addr == ssa.Value(fv) {
						assigned = true
					}
				})
				if !assigned {
					continue
				}
				cell := mc.Bindings[i]
				n++
				bad := ""
				for _, r := range c.returnsOf(fn) {
					rv := resultValues(r)
					if !isNilConst(rv[len(rv)-1]) || !fi.instrDominates(in, r) {
						continue
					}
					okFact := false
					for _, ft := range fi.factsAt(r.Block()) {
						bo, ok := ft.Cond.(*ssa.BinOp)
						if !ok || !isNilConst(bo.Y) {
							continue
						}
						if u, ok := bo.X.(*ssa.UnOp); ok && u.Op == token.MUL && u.X == cell && (bo.Op == token.EQL) == ft.Truth {
							okFact = true
						}
					}
					if !okFact {
						bad = c.pos(r.Pos())
					}
				}
				c.check(bad == "", fmt.Sprintf("%s examines %s before reporting success (go at line %d)", funcName(fn), fv.Name(), c.Fset.Position(in.Pos()).Line), in.Pos(), "every success return after the spawn is on the nil edge of a test of the goroutine's error", "success is returned at "+bad+" without the error the producer goroutine left in "+fv.Name()+" having been tested: a read that failed part-way is reported as complete")
			}
		})
	}
	if n < 4 {
		c.undecided("producer goroutines with an error cell", token.NoPos, "only %d found", n)
	}
}
