package main

import (
	"fmt"
	"go/token"
	"go/types"
	"sort"
	"strings"

	"golang.org/x/tools/go/ssa"
)

// Round 5 rules.

func stripConv(v ssa.Value) ssa.Value {
	for {
		switch x := v.(type) {
		case *ssa.Convert:
			v = x.X
		case *ssa.ChangeType:
			v = x.X
		case *ssa.MakeInterface:
			v = x.X
		case *ssa.ChangeInterface:
			v = x.X
		default:
			return v
		}
	}
}

// closureBinding returns the value bound to free variable fv where its function is made a closure.
func closureBinding(fv *ssa.FreeVar) ssa.Value {
	fn := fv.Parent()
	if fn == nil || fn.Parent() == nil {
		return nil
	}
	idx := -1
	for i, f := range fn.FreeVars {
		if f == fv {
			idx = i
		}
	}
	var out ssa.Value
	allInstrs(fn.Parent(), func(in ssa.Instruction) {
		if mc, ok := in.(*ssa.MakeClosure); ok && mc.Fn == fn && idx >= 0 && idx < len(mc.Bindings) {
			out = mc.Bindings[idx]
		}
	})
	return out
}

// errValueOf returns the error result of a call as an SSA value (the call itself, or the Extract of the error slot).
func errValueOf(call *ssa.Call, sig *types.Signature) ssa.Value {
	ei := errorResultIndex(sig)
	if ei < 0 {
		return nil
	}
	if sig.Results().Len() == 1 {
		return call
	}
	for _, r := range *call.Referrers() {
		if ex, ok := r.(*ssa.Extract); ok && ex.Index == ei {
			return ex
		}
	}
	return nil
}

func callSig(cc *ssa.CallCommon) *types.Signature {
	if cc.IsInvoke() {
		return cc.Method.Type().(*types.Signature)
	}
	if s, ok := cc.Value.Type().Underlying().(*types.Signature); ok {
		return s
	}
	return nil
}

func isDriverInvoke(cc *ssa.CallCommon) bool {
	return cc.IsInvoke() && (isNamed(cc.Value.Type(), modPath+"/storage", "Graph") || isNamed(cc.Value.Type(), modPath+"/storage", "Store"))
}

// ---- P6c the statement limit counts rows, not fetched triples -----------------------------------------------------------------------------------------

// fromStatementLimit: does v come from (*semantic.Statement).Limit()? Follows conversions, phis, parameters (through
// every call site), closure variables and local cells.
func (c *Ctx) fromStatementLimit(v ssa.Value, depth int, seen map[ssa.Value]bool) bool {
	if v == nil || depth > 8 || seen[v] {
		return false
	}
	seen[v] = true
	v = stripConv(v)
	switch x := v.(type) {
	case *ssa.Call:
		if f := x.Call.StaticCallee(); f != nil && f.Signature.Recv() != nil && fnName(f) == "Limit" && isNamed(f.Signature.Recv().Type(), modPath+"/bql/semantic", "Statement") {
			c.limitSources = append(c.limitSources, x)
			return true
		}
		// a same-package helper that hands the limit back (pushDownLimit)
		if f := x.Call.StaticCallee(); f != nil && f.Pkg != nil && f.Pkg.Pkg.Path() == modPath+"/bql/planner" && f.Blocks != nil {
			found := false
			for _, r := range c.returnsOf(f) {
				for _, rv := range resultValues(r) {
					if c.fromStatementLimit(rv, depth+1, seen) {
						found = true
					}
				}
			}
			return found
		}
	case *ssa.Phi:
		found := false
		for _, e := range x.Edges {
			if c.fromStatementLimit(e, depth+1, seen) {
				found = true
			}
		}
		return found
	case *ssa.Parameter:
		fn := x.Parent()
		idx := -1
		for i, p := range fn.Params {
			if p == x {
				idx = i
			}
		}
		found := false
		for _, site := range c.callSites().sites[fn] {
			cc := callCommon(site)
			if cc != nil && idx >= 0 && idx < len(cc.Args) && c.fromStatementLimit(cc.Args[idx], depth+1, seen) {
				found = true
			}
		}
		return found
	case *ssa.FreeVar:
		return c.fromStatementLimit(closureBinding(x), depth+1, seen)
	case *ssa.UnOp:
		if x.Op == token.MUL {
			cell := x.X
			if fv, ok := cell.(*ssa.FreeVar); ok {
				cell = closureBinding(fv)
			}
			if a, ok := cell.(*ssa.Alloc); ok {
				for _, r := range *a.Referrers() {
					if st, ok := r.(*ssa.Store); ok && st.Addr == ssa.Value(a) && c.fromStatementLimit(st.Val, depth+1, seen) {
						return true
					}
				}
			}
		}
	case *ssa.BinOp:
		return c.fromStatementLimit(x.X, depth+1, seen) || c.fromStatementLimit(x.Y, depth+1, seen)
	}
	return false
}

// consumerMayDrop: addTriples has a cycle of its receive loop that adds no row (a fetched triple can be dropped).
func (c *Ctx) consumerMayDrop(fn *ssa.Function) (bool, string) {
	fi := c.fi(fn)
	why := ""
	for _, l := range fi.naturalLoops() {
		recv := false
		for b := range l.blocks {
			for _, in := range fn.Blocks[b].Instrs {
				if u, ok := in.(*ssa.UnOp); ok && u.Op == token.ARROW {
					recv = true
				}
			}
		}
		if !recv {
			continue
		}
		adds := map[int]bool{}
		for b := range l.blocks {
			for _, in := range fn.Blocks[b].Instrs {
				if cc := callCommon(in); cc != nil {
					if f := cc.StaticCallee(); f != nil && fnName(f) == "AddRow" {
						adds[b] = true
					}
				}
			}
		}
		if len(adds) == 0 {
			continue
		}
		// a cycle header -> header that avoids every AddRow block
		seen := map[int]bool{}
		stack := append([]int{}, fi.succs[l.header]...)
		for len(stack) > 0 {
			b := stack[len(stack)-1]
			stack = stack[:len(stack)-1]
			if b == l.header {
				return true, why
			}
			if b >= fi.n || !l.blocks[b] || seen[b] || adds[b] {
				continue
			}
			seen[b] = true
			if why == "" {
				for _, in := range fn.Blocks[b].Instrs {
					if iff, isIf := in.(*ssa.If); isIf && iff.Cond.Pos().IsValid() {
						why = c.pos(iff.Cond.Pos())
					}
				}
			}
			stack = append(stack, fi.succs[b]...)
		}
		return false, ""
	}
	return false, ""
}

// keepGuard: is fn a predicate on a graph clause that is true only for a clause of the form {?s ?p ?o} with three
// different bindings? Checked on its shape: every way of returning a value that can be true lies on the true edges of
// (1) reflect.DeepEqual(*cls, literal) where the literal sets only Optional/SBinding/PBinding/OBinding, and (2) the
// three pairwise inequalities of the bindings.
func (c *Ctx) keepGuard(fn *ssa.Function) (bool, string) {
	if fn == nil || fn.Blocks == nil || fn.Signature.Results().Len() != 1 {
		return false, "not a predicate"
	}
	allowed := map[string]bool{"Optional": true, "SBinding": true, "PBinding": true, "OBinding": true}
	fieldOf := func(v ssa.Value) string {
		u, ok := v.(*ssa.UnOp)
		if !ok || u.Op != token.MUL {
			return ""
		}
		fa, ok := u.X.(*ssa.FieldAddr)
		if !ok || !isNamed(fa.X.Type(), modPath+"/bql/semantic", "GraphClause") {
			return ""
		}
		if _, isParam := fa.X.(*ssa.Parameter); !isParam {
			return ""
		}
		return fieldName(fa.X.Type(), fa.Field)
	}
	classify := func(v ssa.Value) string {
		switch x := v.(type) {
		case *ssa.Call:
			if !isCallTo(&x.Call, "reflect", "DeepEqual") || len(x.Call.Args) != 2 {
				return ""
			}
			okLit, okCls := false, false
			for _, a := range x.Call.Args {
				ld, ok := stripConv(a).(*ssa.UnOp)
				if !ok || ld.Op != token.MUL {
					return ""
				}
				switch src := ld.X.(type) {
				case *ssa.Parameter:
					okCls = isNamed(src.Type(), modPath+"/bql/semantic", "GraphClause")
				case *ssa.Alloc:
					okLit = true
					for _, r := range *src.Referrers() {
						fa, ok := r.(*ssa.FieldAddr)
						if !ok {
							continue
						}
						for _, r2 := range *fa.Referrers() {
							if st, ok := r2.(*ssa.Store); ok && st.Addr == ssa.Value(fa) {
								name := fieldName(fa.X.Type(), fa.Field)
								if !allowed[name] || fieldOf(st.Val) != name {
									okLit = false
								}
							}
						}
					}
				}
			}
			if okLit && okCls {
				return "DE"
			}
		case *ssa.BinOp:
			a, b := fieldOf(x.X), fieldOf(x.Y)
			if a != "" && b != "" && a != b && (x.Op == token.NEQ || x.Op == token.EQL) {
				if a > b {
					a, b = b, a
				}
				return x.Op.String() + a + b
			}
		}
		return ""
	}
	fi := c.fi(fn)
	need := []string{"DE", "!=OBindingPBinding", "!=OBindingSBinding", "!=PBindingSBinding"}
	holds := func(b *ssa.BasicBlock, self ssa.Value) string {
		have := map[string]bool{}
		for _, ft := range fi.factsAt(b) {
			k := classify(ft.Cond)
			if strings.HasPrefix(k, "==") {
				k = "!=" + k[2:]
				if !ft.Truth {
					have[k] = true
				}
				continue
			}
			if k != "" && ft.Truth {
				have[k] = true
			}
		}
		if self != nil {
			if k := classify(self); k != "" && !strings.HasPrefix(k, "==") {
				have[k] = true
			}
		}
		for _, k := range need {
			if !have[k] {
				return k
			}
		}
		return ""
	}
	for _, r := range c.returnsOf(fn) {
		v := resultValues(r)[0]
		var edges []struct {
			b *ssa.BasicBlock
			v ssa.Value
		}
		if phi, ok := v.(*ssa.Phi); ok {
			for i, e := range phi.Edges {
				edges = append(edges, struct {
					b *ssa.BasicBlock
					v ssa.Value
				}{phi.Block().Preds[i], e})
			}
		} else {
			edges = append(edges, struct {
				b *ssa.BasicBlock
				v ssa.Value
			}{r.Block(), v})
		}
		for _, e := range edges {
			if k, ok := e.v.(*ssa.Const); ok && k.Value != nil && k.Value.String() == "false" {
				continue
			}
			self := e.v
			if _, isConst := self.(*ssa.Const); isConst {
				self = nil
			}
			if missing := holds(e.b, self); missing != "" {
				return false, "a value that can be true is returned without " + missing + " having been established"
			}
		}
	}
	return true, ""
}

func ruleP6c(c *Ctx) {
	c.Rule("P6c", "LIMIT counts result rows, not fetched triples: the statement limit is handed to a driver as LookupOptions.MaxElements only when the consumer of that lookup turns every fetched triple into a row; addTriples drops triples (repeated bindings, TYPE/ID/AT extractions that do not apply, predicate and object filters), so a lookup cut at n triples can yield fewer than min(n, N) rows", 0)
	add := c.mustFunc("bql/planner", "addTriples")
	if add == nil {
		return
	}
	drops, where := c.consumerMayDrop(add)
	n := 0
	for _, fn := range c.srcFuncs("bql/planner") {
		top := fn
		for top.Parent() != nil {
			top = top.Parent()
		}
		allInstrs(fn, func(in ssa.Instruction) {
			st, ok := in.(*ssa.Store)
			if !ok {
				return
			}
			fa, ok := st.Addr.(*ssa.FieldAddr)
			if !ok || !isNamed(fa.X.Type(), modPath+"/storage", "LookupOptions") || fieldName(fa.X.Type(), fa.Field) != "MaxElements" {
				return
			}
			c.limitSources = nil
			if !c.fromStatementLimit(st.Val, 0, map[ssa.Value]bool{}) {
				return
			}
			n++
			// every place the limit is read for this store is under a clause test that rules out dropped triples
			unguarded := ""
			for _, src := range c.limitSources {
				sfi := c.fi(src.Parent())
				g := false
				for _, ft := range sfi.factsAt(src.Block()) {
					call, ok := ft.Cond.(*ssa.Call)
					if !ok || !ft.Truth {
						continue
					}
					if ok, _ := c.keepGuard(call.Call.StaticCallee()); ok {
						g = true
					}
				}
				if !g {
					unguarded = c.pos(src.Pos())
				}
			}
			guardedAll := unguarded == "" && len(c.limitSources) > 0
			// the driver call(s) that receive these options
			var methods []string
			allInstrs(fn, func(i2 ssa.Instruction) {
				cc := callCommon(i2)
				if cc == nil || !isDriverInvoke(cc) {
					return
				}
				for _, a := range cc.Args {
					if a == fa.X {
						methods = append(methods, cc.Method.Name())
					}
				}
			})
			sort.Strings(methods)
			methods = uniq(methods)
			if len(methods) == 0 {
				methods = []string{"a lookup made elsewhere"}
			}
			for _, m := range methods {
				key := fmt.Sprintf("%s pushes the statement limit into %s", funcName(c.attributionRoot(top)), m)
				if guardedAll {
					c.ok(key, in.Pos(), "the limit is read only for a clause of the form {?s ?p ?o} with three different bindings (%d read site(s), each on the true edge of the clause test), for which addTriples adds a row per triple", len(c.limitSources))
				} else if drops {
					c.bad(key, in.Pos(), "the statement limit (read at "+unguarded+" without a test that the clause keeps every fetched triple) is stored into LookupOptions.MaxElements at %s and the options go to %s, whose results are consumed by addTriples; addTriples can drop a fetched triple (a cycle of its receive loop adds no row, e.g. through the test at %s), so the driver stops after n triples while fewer than n of them become rows: LIMIT n returns fewer than min(n, N) rows", c.pos(in.Pos()), m, where)
				} else {
					c.ok(key, in.Pos(), "addTriples adds a row for every triple it receives")
				}
			}
		})
	}
	if n == 0 {
		c.trivial("statement limit pushed into a driver lookup", token.NoPos, "the statement limit never reaches LookupOptions.MaxElements")
	}
}

// ---- P8f a success return after a fetch is on the nil edge of its error -----------------------------------------------------------------------------

func isFetchCall(call *ssa.Call) bool {
	if isDriverInvoke(&call.Call) {
		return true
	}
	if f := call.Call.StaticCallee(); f != nil && f.Pkg != nil && f.Pkg.Pkg.Path() == modPath+"/bql/planner" {
		switch fnName(f) {
		case "simpleFetch", "simpleExist", "addTriples", "update", "addSpecifiedData", "specifyClauseWithTable", "processClause", "processGraphPattern":
			return true
		}
	}
	return false
}

func ruleP8f(c *Ctx) {
	c.Rule("P8f", "after a fetch the function reports success only when the fetch's error was seen to be nil: every return with a nil error that is dominated by a driver call or planner fetch (simpleFetch, simpleExist, addTriples, update, addSpecifiedData, …) lies on the nil edge of a test of that call's error (the reviewed 'skippable' type test excepted) — an error is not classified away (errors.Is, string match) into success", 10)
	n := 0
	for _, fn := range c.srcFuncs("bql/planner") {
		if errorResultIndex(fn.Signature) < 0 {
			continue
		}
		fi := c.fi(fn)
		rets := c.returnsOf(fn)
		allInstrs(fn, func(in ssa.Instruction) {
			call, ok := in.(*ssa.Call)
			if !ok || !isFetchCall(call) {
				return
			}
			sg := callSig(&call.Call)
			if sg == nil {
				return
			}
			e := errValueOf(call, sg)
			if e == nil {
				return
			}
			// an error kept in a cell (assigned to a variable a closure shares) is covered by P8d
			direct := false
			for _, r := range *e.Referrers() {
				if _, isStore := r.(*ssa.Store); !isStore {
					direct = true
				}
			}
			if !direct {
				return
			}
			n++
			bad := ""
			for _, r := range rets {
				rv := resultValues(r)
				if !isNilConst(rv[len(rv)-1]) || !fi.instrDominates(in, r) {
					continue
				}
				okFact := false
				for _, ft := range fi.factsAt(r.Block()) {
					bo, ok := ft.Cond.(*ssa.BinOp)
					if ok && isNilConst(bo.Y) && bo.X == e && (bo.Op == token.EQL) == ft.Truth {
						okFact = true
					}
				}
				// the skippable case: a type test of the error dominates the return
				for _, b := range fn.Blocks {
					if !fi.dominates(b, r.Block()) {
						continue
					}
					for _, i2 := range b.Instrs {
						if ta, ok := i2.(*ssa.TypeAssert); ok && ta.X == e {
							okFact = true
						}
					}
				}
				if !okFact {
					bad = c.pos(r.Pos())
				}
			}
			c.check(bad == "", fmt.Sprintf("%s reports success only past the nil test of %s (line %d)", funcName(fn), calleeName(&call.Call), c.Fset.Position(in.Pos()).Line), in.Pos(), "every success return the call dominates is on the nil edge of its error", "success is returned at "+bad+" although the error of "+calleeName(&call.Call)+" called at "+c.pos(in.Pos())+" was not seen to be nil on that path: a failed read is classified away and reported as a (partial) result")
		})
	}
	if n < 10 {
		c.undecided("fetch calls with a directly used error in the planner", token.NoPos, "only %d found", n)
	}
}

// ---- P8e an error produced in a loop is looked at in that iteration ----------------------------------------------------------------------------------

func ruleP8e(c *Ctx, rels ...string) {
	c.Rule("P8e", "an error produced inside a loop is examined before the next iteration overwrites it: the error result of a driver call or module function made in a loop is tested, returned, stored or passed on inside that loop (not merely carried to the loop exit), and an error cell written by a goroutine started in a loop is either declared inside the loop or tested inside it — otherwise only the last graph's/row's outcome is reported", 8)
	n := 0
	for _, fn := range c.srcFuncs(rels...) {
		fi := c.fi(fn)
		loops := fi.naturalLoops()
		if len(loops) == 0 {
			continue
		}
		inLoop := func(b int) *natLoop { return fi.innermostLoop(b) }
		allInstrs(fn, func(in ssa.Instruction) {
			switch x := in.(type) {
			case *ssa.Call:
				l := inLoop(in.Block().Index)
				if l == nil {
					return
				}
				sg := callSig(&x.Call)
				if sg == nil {
					return
				}
				mod := isDriverInvoke(&x.Call)
				if f := x.Call.StaticCallee(); f != nil && f.Pkg != nil && strings.HasPrefix(f.Pkg.Pkg.Path(), modPath) {
					mod = true
				}
				if !mod {
					return
				}
				e := errValueOf(x, sg)
				if e == nil || len(*e.Referrers()) == 0 {
					return
				}
				n++
				used := false
				seenPhi := map[*ssa.Phi]bool{}
				var look func(v ssa.Value)
				look = func(v ssa.Value) {
					for _, r := range *v.Referrers() {
						if phi, isPhi := r.(*ssa.Phi); isPhi {
							// carried to the next iteration and looked at there (if err != nil { continue })
							if l.blocks[phi.Block().Index] && !seenPhi[phi] {
								seenPhi[phi] = true
								look(phi)
							}
							continue
						}
						if _, isDbg := r.(*ssa.DebugRef); isDbg {
							continue
						}
						if l.blocks[r.Block().Index] {
							used = true
						}
						// a return of the error leaves the loop: that is a use, too
						if _, isRet := r.(*ssa.Return); isRet {
							used = true
						}
					}
				}
				look(e)
				c.check(used, fmt.Sprintf("%s looks at the error of %s inside the loop (line %d)", funcName(fn), calleeName(&x.Call), c.Fset.Position(in.Pos()).Line), in.Pos(), "tested, returned, stored or passed on within the iteration", "the error of "+calleeName(&x.Call)+" called in a loop at "+c.pos(in.Pos())+" only flows to the loop exit: every iteration overwrites the previous one's error, so a failure in any but the last iteration is forgotten")
			case *ssa.Go:
				l := inLoop(in.Block().Index)
				if l == nil {
					return
				}
				mc, ok := x.Call.Value.(*ssa.MakeClosure)
				if !ok {
					return
				}
				tgt := mc.Fn.(*ssa.Function)
				for i, fv := range tgt.FreeVars {
					pt, ok := fv.Type().Underlying().(*types.Pointer)
					if !ok || !types.Identical(pt.Elem(), types.Universe.Lookup("error").Type()) || i >= len(mc.Bindings) {
						continue
					}
					assigned := false
					allInstrs(tgt, func(i2 ssa.Instruction) {
						if st, ok := i2.(*ssa.Store); ok && st.Addr == ssa.Value(fv) {
							assigned = true
						}
					})
					cell, isAlloc := mc.Bindings[i].(*ssa.Alloc)
					if !assigned || !isAlloc {
						continue
					}
					n++
					key := fmt.Sprintf("%s: the error cell %s of the goroutine started at line %d is per iteration", funcName(fn), fv.Name(), c.Fset.Position(in.Pos()).Line)
					if l.blocks[cell.Block().Index] {
						c.ok(key, in.Pos(), "declared inside the loop")
						continue
					}
					tested := false
					for _, r := range *cell.Referrers() {
						u, ok := r.(*ssa.UnOp)
						if !ok || u.Op != token.MUL || !l.blocks[u.Block().Index] {
							continue
						}
						for _, r2 := range *u.Referrers() {
							if bo, ok := r2.(*ssa.BinOp); ok && (isNilConst(bo.Y) || isNilConst(bo.X)) && l.blocks[bo.Block().Index] {
								tested = true
							}
							if _, isRet := r2.(*ssa.Return); isRet {
								tested = true
							}
						}
					}
					c.check(tested, key, in.Pos(), "declared outside the loop but tested inside it", "the goroutine started in a loop at "+c.pos(in.Pos())+" writes its error into "+fv.Name()+", which is declared outside the loop and not tested inside it: the next iteration's goroutine overwrites it, so only the last iteration's outcome is reported")
				}
			}
		})
	}
	if n < 8 {
		c.undecided("errors produced in loops", token.NoPos, "only %d found", n)
	}
}

// ---- A5 one accumulator per projection ------------------------------------------------------------------------------------------------------------

func ruleA5(c *Ctx) {
	c.Rule("A5", "every aggregate projection gets an accumulator of its own: an AliasAccPair.Acc assigned in the projection loop is created inside that loop iteration (accumulators are stateful and Reduce feeds each pair once per row, so a shared one counts every row once per projection)", 1)
	n := 0
	for _, fn := range c.srcFuncs("bql/planner") {
		fi := c.fi(fn)
		allInstrs(fn, func(in ssa.Instruction) {
			st, ok := in.(*ssa.Store)
			if !ok {
				return
			}
			fa, ok := st.Addr.(*ssa.FieldAddr)
			if !ok || !isNamed(fa.X.Type(), modPath+"/bql/table", "AliasAccPair") || fieldName(fa.X.Type(), fa.Field) != "Acc" {
				return
			}
			l := fi.innermostLoop(in.Block().Index)
			if l == nil {
				return
			}
			n++
			bad := ""
			seen := map[ssa.Value]bool{}
			var leaf func(v ssa.Value)
			leaf = func(v ssa.Value) {
				v = stripConv(v)
				if seen[v] {
					return
				}
				seen[v] = true
				switch x := v.(type) {
				case *ssa.Phi:
					if l.blocks[x.Block().Index] && x.Block().Index != l.header {
						for _, e := range x.Edges {
							leaf(e)
						}
						return
					}
					bad = "a value carried around the loop"
				case *ssa.Const:
				case ssa.Instruction:
					if !l.blocks[x.Block().Index] {
						bad = "the value created at " + c.pos(x.Pos()) + ", outside the loop"
						return
					}
					// handed back by a same-package helper: the helper must create what it returns
					var call *ssa.Call
					idx := 0
					switch y := x.(type) {
					case *ssa.Call:
						call = y
					case *ssa.Extract:
						call, _ = y.Tuple.(*ssa.Call)
						idx = y.Index
					}
					if call == nil {
						return
					}
					h := helperCallee(fn, &call.Call)
					if h == nil {
						return
					}
					for _, r := range c.returnsOf(h) {
						rv := resultValues(r)
						if idx >= len(rv) {
							continue
						}
						switch z := stripConv(rv[idx]).(type) {
						case *ssa.Const, *ssa.Call, *ssa.Alloc, *ssa.MakeMap, *ssa.MakeSlice:
						default:
							bad = "whatever " + funcName(h) + " returns at " + c.pos(r.Pos()) + " (" + truncate(c.term(z), 50) + "), which is not created there"
						}
					}
				default:
					bad = "a value that is not created in the loop (" + truncate(c.term(v), 60) + ")"
				}
			}
			leaf(st.Val)
			c.check(bad == "", fmt.Sprintf("%s gives each projection a fresh accumulator (line %d)", funcName(fn), c.Fset.Position(in.Pos()).Line), in.Pos(), "the accumulator is created inside the loop iteration", "the accumulator stored at "+c.pos(in.Pos())+" is "+bad+": several projections share one accumulator, which Reduce advances once per projection and row")
		})
	}
	if n < 1 {
		c.undecided("accumulators assigned in the projection loop", token.NoPos, "only %d found", n)
	}
}

// ---- A6 no group reduction on an empty table ----------------------------------------------------------------------------------------------------------

func ruleA6(c *Ctx) {
	c.Rule("A6", "a pattern without solutions gives an empty result, not a failure, under GROUP BY: the call of Table.Reduce in projectAndGroupBy is made only when the table has rows (dominated by the non-empty edge of a NumRows/len test), or Reduce itself returns before any of its error returns when the table is empty — Reduce validates the bindings of the table against the projections first, and an empty table still carries every binding of the pattern", 1)
	pg := c.mustFunc("bql/planner", "queryPlan.projectAndGroupBy")
	red := c.mustFunc("bql/table", "Table.Reduce")
	if pg == nil || red == nil {
		return
	}
	nonEmptyFact := func(fi *fnInfo, b *ssa.BasicBlock) bool {
		for _, ft := range fi.factsAt(b) {
			bo, ok := ft.Cond.(*ssa.BinOp)
			if !ok {
				continue
			}
			k, isC := constInt(bo.Y)
			if !isC {
				continue
			}
			t := c.term(bo.X)
			if !(strings.Contains(t, "NumRows(") || (strings.HasPrefix(t, "len(") && (strings.Contains(t, ".Data") || strings.Contains(t, "Rows(")))) {
				continue
			}
			switch {
			case bo.Op == token.EQL && k == 0 && !ft.Truth, bo.Op == token.NEQ && k == 0 && ft.Truth,
				bo.Op == token.GTR && k == 0 && ft.Truth, bo.Op == token.LEQ && k == 0 && !ft.Truth,
				bo.Op == token.GEQ && k == 1 && ft.Truth, bo.Op == token.LSS && k == 1 && !ft.Truth:
				return true
			}
		}
		return false
	}
	// Reduce guards itself?
	selfGuard := true
	rfi := c.fi(red)
	nErr := 0
	for _, r := range c.returnsOf(red) {
		rv := resultValues(r)
		if isNilConst(rv[len(rv)-1]) {
			continue
		}
		nErr++
		if !nonEmptyFact(rfi, r.Block()) {
			selfGuard = false
		}
	}
	if nErr == 0 {
		selfGuard = true
	}
	n := 0
	walkHelpers(pg, 2, func(inFn *ssa.Function, in ssa.Instruction, top ssa.Instruction) {
		call, ok := in.(*ssa.Call)
		if !ok || call.Call.StaticCallee() != red {
			return
		}
		n++
		key := "projectAndGroupBy reduces only a table with rows"
		if selfGuard {
			c.ok(key, in.Pos(), "Table.Reduce returns before every error return when the table is empty")
			return
		}
		guarded := nonEmptyFact(c.fi(inFn), in.Block())
		if !guarded && inFn != pg {
			if ti, ok := top.(ssa.Instruction); ok && ti.Block() != nil {
				guarded = nonEmptyFact(c.fi(pg), ti.Block())
			}
		}
		c.check(guarded, key, in.Pos(), "the call is on the non-empty edge of a row-count test", "Table.Reduce is called at "+c.pos(in.Pos())+" without the table having been seen to be non-empty: for a pattern without solutions Reduce fails its binding validation (the empty table keeps every binding of the pattern), so the statement fails instead of returning an empty result")
	})
	if n == 0 {
		c.undecided("call of Table.Reduce from projectAndGroupBy", pg.Pos(), "not found")
	}
}

// ---- N3 integers are not routed through floating point ---------------------------------------------------------------------------------------------------

func ruleN3(c *Ctx, rels ...string) {
	c.Rule("N3", "64-bit integers are never converted to floating point where values are ordered, compared, rendered or summed: no int64/uint64 -> float conversion in the value packages (float64 has 53 bits of mantissa, so integers above 2^53 that differ in their low bits collapse into one key or one sum)", 1)
	n := 0
	for _, fn := range c.srcFuncs(rels...) {
		allInstrs(fn, func(in ssa.Instruction) {
			cv, ok := in.(*ssa.Convert)
			if !ok {
				return
			}
			from, ok1 := cv.X.Type().Underlying().(*types.Basic)
			to, ok2 := cv.Type().Underlying().(*types.Basic)
			if !ok1 || !ok2 || from.Info()&types.IsNumeric == 0 || to.Info()&types.IsNumeric == 0 {
				return
			}
			if _, isConst := cv.X.(*ssa.Const); isConst {
				return
			}
			n++
			lossy := (from.Kind() == types.Int64 || from.Kind() == types.Uint64) && to.Info()&types.IsFloat != 0
			if lossy {
				c.bad(fmt.Sprintf("%s converts %s to %s", funcName(fn), from.Name(), to.Name()), in.Pos(), "%s value converted to %s at %s: integers above 2^53 lose their low bits, so distinct values order, compare or render as equal", from.Name(), to.Name(), c.pos(in.Pos()))
			}
		})
	}
	c.ok("numeric conversions in "+strings.Join(rels, ", "), token.NoPos, "%d numeric conversions examined", n)
}

// ---- P13b the leaf comparator compares its two arguments with the built-in operators --------------------------------------------------------------------

func ruleP13b(c *Ctx) {
	c.Rule("P13b", "the leaf comparison of the sort is one consistent order on the printed forms: every branch of stringLess is decided by a built-in comparison (== != < <= > >=, or strings.Compare/cmp.Compare against 0) of its two arguments — as given or trimmed, the same pair in every comparison — or by the direction flag; no other function of the strings decides a branch (folding, prefixes, lengths), so equality and order cannot disagree", 2)
	fn := c.mustFunc("bql/table", "stringLess")
	if fn == nil {
		return
	}
	var strParams []*ssa.Parameter
	for _, p := range fn.Params {
		if b, ok := p.Type().Underlying().(*types.Basic); ok && b.Info()&types.IsString != 0 {
			strParams = append(strParams, p)
		}
	}
	// operand classification: "A"/"B" for the two arguments (possibly trimmed), "const", or "" (something else)
	var classify func(v ssa.Value, depth int) string
	classify = func(v ssa.Value, depth int) string {
		if depth > 4 {
			return ""
		}
		switch x := v.(type) {
		case *ssa.Const:
			return "const"
		case *ssa.Parameter:
			for i, p := range strParams {
				if p == x {
					return string(rune('A' + i))
				}
			}
		case *ssa.Call:
			if isCallTo(&x.Call, "strings", "TrimSpace") && len(x.Call.Args) == 1 {
				return classify(x.Call.Args[0], depth+1)
			}
		case *ssa.Extract:
			return ""
		}
		return ""
	}
	n := 0
	pairs := map[string]bool{}
	allInstrs(fn, func(in ssa.Instruction) {
		iff, ok := in.(*ssa.If)
		if !ok {
			return
		}
		n++
		key := fmt.Sprintf("stringLess branch #%d", n)
		cond := iff.Cond
		for {
			u, ok := cond.(*ssa.UnOp)
			if !ok || u.Op != token.NOT {
				break
			}
			cond = u.X
		}
		if p, ok := cond.(*ssa.Parameter); ok {
			if b, isB := p.Type().Underlying().(*types.Basic); isB && b.Kind() == types.Bool {
				c.ok(key, in.Pos(), "decided by the direction flag")
				return
			}
		}
		bo, ok := cond.(*ssa.BinOp)
		if !ok {
			c.bad(key, in.Pos(), "the branch at %s is decided by %s, not by a built-in comparison of the two strings: values that differ can be reported equal (or the order is no longer the order of the printed forms)", c.pos(in.Pos()), truncate(c.term(cond), 80))
			return
		}
		x, y := bo.X, bo.Y
		// strings.Compare(a, b) <op> 0
		if call, isCall := x.(*ssa.Call); isCall && (isCallTo(&call.Call, "strings", "Compare") || isCallTo(&call.Call, "cmp", "Compare")) && len(call.Call.Args) == 2 {
			if k, isC := constInt(y); isC && k == 0 {
				x, y = call.Call.Args[0], call.Call.Args[1]
			}
		}
		cx, cy := classify(x, 0), classify(y, 0)
		if cx == "" || cy == "" {
			// comparisons of the ints computed so far (b == 1, …) are harmless when neither side is a string
			bx, okx := x.Type().Underlying().(*types.Basic)
			if okx && bx.Info()&types.IsString == 0 {
				c.ok(key, in.Pos(), "not a comparison of strings")
				return
			}
			c.bad(key, in.Pos(), "the comparison at %s is on %s and %s, not on the two arguments of stringLess (as given or trimmed)", c.pos(in.Pos()), truncate(c.term(x), 50), truncate(c.term(y), 50))
			return
		}
		if cx != "const" && cy != "const" {
			p := []string{cx, cy}
			sort.Strings(p)
			pairs[strings.Join(p, "")] = true
			if cx == cy {
				c.bad(key, in.Pos(), "the comparison at %s compares an argument with itself", c.pos(in.Pos()))
				return
			}
		}
		c.ok(key, in.Pos(), "built-in %s on the arguments", bo.Op)
	})
	c.check(len(pairs) == 1, "stringLess compares its two arguments", fn.Pos(), "every two-sided comparison is on the same pair", fmt.Sprintf("two-sided comparisons on %d different pairs of operands", len(pairs)))
}

// ---- U1 no unsafe in the engine --------------------------------------------------------------------------------------------------------------------------

func ruleU1(c *Ctx, rels ...string) {
	c.Rule("U1", "strings and values handed on by the engine own their memory: no engine package imports unsafe (a string viewed over a reused buffer — scanner.Bytes, a pooled slice — changes after it was parsed, stored or hashed)", 5)
	seen := map[string]bool{}
	for _, fn := range c.srcFuncs(rels...) {
		if fn.Pkg == nil || seen[fn.Pkg.Pkg.Path()] {
			continue
		}
		p := fn.Pkg.Pkg
		seen[p.Path()] = true
		uses := false
		for _, imp := range p.Imports() {
			if imp.Path() == "unsafe" {
				uses = true
			}
		}
		rel := strings.TrimPrefix(strings.TrimPrefix(p.Path(), modPath), "/")
		c.check(!uses, "package "+rel+" does not import unsafe", token.NoPos, "no unsafe import", "package "+rel+" imports unsafe: memory it hands on may alias a buffer that is reused")
	}
}

// ---- MK1 the token channel never gets a negative capacity ---------------------------------------------------------------------------------------------

// nonNegAt: is v known to be >= 0 when control is in block b of fn (or on the edge from b to `to`, when to != nil)?
func (c *Ctx) nonNegAt(v ssa.Value, fn *ssa.Function, b *ssa.BasicBlock, to *ssa.BasicBlock, depth int) (bool, string) {
	if depth > 6 {
		return false, "too deep"
	}
	v = stripConv(v)
	fi := c.fi(fn)
	facts := fi.factsAt(b)
	if to != nil && len(b.Instrs) > 0 {
		if iff, ok := b.Instrs[len(b.Instrs)-1].(*ssa.If); ok && b.Succs[0] != b.Succs[1] {
			if b.Succs[0] == to {
				facts = append(facts, expandFact(Fact{iff.Cond, true})...)
			} else if b.Succs[1] == to {
				facts = append(facts, expandFact(Fact{iff.Cond, false})...)
			}
		}
	}
	for _, ft := range facts {
		bo, ok := ft.Cond.(*ssa.BinOp)
		if !ok || stripConv(bo.X) != v {
			continue
		}
		k, isC := constInt(bo.Y)
		if !isC {
			continue
		}
		switch {
		case bo.Op == token.LSS && k <= 0 && !ft.Truth, bo.Op == token.GEQ && k >= 0 && ft.Truth, bo.Op == token.GTR && k >= -1 && ft.Truth, bo.Op == token.LEQ && k < 0 && !ft.Truth:
			return true, ""
		}
	}
	switch x := v.(type) {
	case *ssa.Const:
		if k, ok := constInt(x); ok && k >= 0 {
			return true, ""
		}
		return false, "negative constant"
	case *ssa.Call:
		if isBuiltinCall(&x.Call, "len") || isBuiltinCall(&x.Call, "cap") {
			return true, ""
		}
	case *ssa.BinOp:
		if x.Op == token.MUL || x.Op == token.ADD {
			okx, wx := c.nonNegAt(x.X, fn, b, to, depth+1)
			oky, wy := c.nonNegAt(x.Y, fn, b, to, depth+1)
			if okx && oky {
				return true, ""
			}
			return false, wx + wy
		}
	case *ssa.Phi:
		for i, e := range x.Edges {
			if ok, why := c.nonNegAt(e, fn, x.Block().Preds[i], x.Block(), depth+1); !ok {
				return false, why
			}
		}
		return true, ""
	case *ssa.Parameter:
		idx := -1
		for i, p := range fn.Params {
			if p == x {
				idx = i
			}
		}
		sites := c.callSites().sites[fn]
		exported := fn.Object() != nil && fn.Object().Exported()
		if exported || c.callSites().escapes[fn] || len(sites) == 0 || idx < 0 {
			return false, fmt.Sprintf("parameter %s of %s comes from outside the module and its sign is not tested", x.Name(), funcName(fn))
		}
		for _, site := range sites {
			cc := callCommon(site)
			if ok, why := c.nonNegAt(cc.Args[idx], site.Parent(), site.Block(), nil, depth+1); !ok {
				return false, why
			}
		}
		return true, ""
	}
	return false, "the sign of " + truncate(c.term(v), 60) + " is not established"
}

func ruleMK1(c *Ctx) {
	c.Rule("MK1", "the lexer can be started for every input: the capacity of the token channel made in bql/lexer is never negative — a constant, or a caller's value whose sign is tested on every way in from an exported entry point (make(chan T, n) panics for n < 0, so New(input, n) would neither emit a token nor close the channel)", 1)
	n := 0
	for _, fn := range c.srcFuncs("bql/lexer") {
		allInstrs(fn, func(in ssa.Instruction) {
			mk, ok := in.(*ssa.MakeChan)
			if !ok {
				return
			}
			n++
			ok2, why := c.nonNegAt(mk.Size, fn, in.Block(), nil, 0)
			c.check(ok2, funcName(fn)+" makes its channel with a non-negative capacity", in.Pos(), "capacity is a constant or sign-tested on every way in", "make(chan, n) at "+c.pos(in.Pos())+" can get a negative capacity: "+why)
		})
	}
	if n == 0 {
		c.undecided("channel creation in bql/lexer", token.NoPos, "none found")
	}
}

// ---- P5d the table is truncated by the limit stage only ----------------------------------------------------------------------------------------------

func ruleP5d(c *Ctx) {
	c.Rule("P5d", "rows are cut off by the limit stage alone: in the planner (*Table).Limit and (*Table).Truncate-like cut-offs are called only from queryPlan.limit, which Execute runs after ordering and HAVING (a cut-off inside an earlier stage removes rows that the later filter would have kept in favour of rows it drops)", 1)
	lim := c.mustFunc("bql/table", "Table.Limit")
	stage := c.mustFunc("bql/planner", "queryPlan.limit")
	if lim == nil || stage == nil {
		return
	}
	n := 0
	for _, fn := range c.srcFuncs("bql/planner") {
		allInstrs(fn, func(in ssa.Instruction) {
			cc := callCommon(in)
			if cc == nil || cc.StaticCallee() != lim {
				return
			}
			n++
			top := fn
			for top.Parent() != nil {
				top = top.Parent()
			}
			root := c.attributionRoot(top)
			c.check(root == stage || top == stage, fmt.Sprintf("%s cuts the table off", funcName(top)), in.Pos(), "called from the limit stage", "Table.Limit is called at "+c.pos(in.Pos())+" from "+funcName(top)+", not from the limit stage: rows are cut off before the later stages (HAVING) have filtered them")
		})
	}
	if n == 0 {
		c.undecided("calls of Table.Limit in the planner", token.NoPos, "none found")
	}
}

// ---- OK1 the three kinds of object are handled together ------------------------------------------------------------------------------------------------

func ruleOK1(c *Ctx) {
	c.Rule("OK1", "an object is a node, a predicate or a literal, and code that distinguishes kinds handles all three: a function of package triple that reads two of Object's kind fields reads the third as well (a literal object that falls through an if/else chain over nodes and predicates becomes a nil object or a nil triple further down)", 3)
	obj := c.mustNamed("triple", "Object")
	if obj == nil {
		return
	}
	st, ok := obj.Underlying().(*types.Struct)
	if !ok {
		return
	}
	kinds := map[int]string{}
	for i := 0; i < st.NumFields(); i++ {
		if _, isPtr := st.Field(i).Type().(*types.Pointer); isPtr {
			kinds[i] = st.Field(i).Name()
		}
	}
	if len(kinds) != 3 {
		c.undecided("triple.Object kind fields", token.NoPos, "expected three pointer fields, found %d", len(kinds))
		return
	}
	for _, fn := range c.srcFuncs("triple") {
		if fn.Parent() != nil {
			continue
		}
		read := map[string]bool{}
		withClosures(fn, func(f *ssa.Function) {
			allInstrs(f, func(in ssa.Instruction) {
				switch x := in.(type) {
				case *ssa.FieldAddr:
					if namedOf(x.X.Type()) == obj {
						if k, ok := kinds[x.Field]; ok {
							read[k] = true
						}
					}
				case *ssa.Field:
					if namedOf(x.X.Type()) == obj {
						if k, ok := kinds[x.Field]; ok {
							read[k] = true
						}
					}
				}
			})
		})
		if len(read) < 2 {
			continue
		}
		var missing []string
		for _, k := range kinds {
			if !read[k] {
				missing = append(missing, k)
			}
		}
		sort.Strings(missing)
		c.check(len(missing) == 0, funcName(fn)+" handles every kind of object", fn.Pos(), "reads all three kind fields", funcName(fn)+" distinguishes object kinds but never looks at field "+strings.Join(missing, ",")+": an object of that kind falls through")
	}
}

// ---- E5 an evaluator is built only from a fully consumed expression ------------------------------------------------------------------------------------

func ruleE5(c *Ctx) {
	c.Rule("E5", "NewEvaluator accepts an expression only when it was consumed completely: its success return lies on an edge where the number of left-over tokens is known to be at most one (the one allowed left-over being the closing parenthesis) — otherwise `a > x and b = y` is accepted as `a > x`", 1)
	fn := c.mustFunc("bql/semantic", "NewEvaluator")
	if fn == nil {
		return
	}
	fi := c.fi(fn)
	n := 0
	for _, r := range c.returnsOf(fn) {
		rv := resultValues(r)
		if !isNilConst(rv[len(rv)-1]) {
			continue
		}
		n++
		bounded := false
		for _, ft := range fi.factsAt(r.Block()) {
			bo, ok := ft.Cond.(*ssa.BinOp)
			if !ok {
				continue
			}
			call, ok := bo.X.(*ssa.Call)
			if !ok || !isBuiltinCall(&call.Call, "len") {
				continue
			}
			k, isC := constInt(bo.Y)
			if !isC {
				continue
			}
			switch {
			case bo.Op == token.GTR && k <= 1 && !ft.Truth, bo.Op == token.GEQ && k <= 2 && !ft.Truth,
				bo.Op == token.LEQ && k <= 1 && ft.Truth, bo.Op == token.LSS && k <= 2 && ft.Truth,
				bo.Op == token.EQL && k <= 1 && ft.Truth:
				bounded = true
			}
		}
		c.check(bounded, fmt.Sprintf("NewEvaluator success return #%d is past the left-over test", n), r.Pos(), "at most one token is left over on this edge", "NewEvaluator returns an evaluator at "+c.pos(r.Pos())+" without the number of left-over tokens being bounded by one: a trailing `and …`/`or …` is accepted and ignored")
	}
	if n == 0 {
		c.undecided("success returns of NewEvaluator", fn.Pos(), "none found")
	}
}

// ---- P3d the verdict of a ground clause reaches the caller ----------------------------------------------------------------------------------------------

func ruleP3d(c *Ctx) {
	c.Rule("P3d", "whether a fully specified clause holds decides the pattern: every error-free return of processClause that the simpleExist call dominates hands back the flag simpleExist returned (a constant there makes the clause hold, or fail, whatever the graphs contain)", 1)
	fn := c.mustFunc("bql/planner", "queryPlan.processClause")
	if fn == nil {
		return
	}
	fi := c.fi(fn)
	n := 0
	walkHelpers(fn, 1, func(inFn *ssa.Function, in ssa.Instruction, top ssa.Instruction) {
		call, ok := in.(*ssa.Call)
		if !ok || inFn != fn {
			return
		}
		f := call.Call.StaticCallee()
		if f == nil || fnName(f) != "simpleExist" {
			return
		}
		var flag ssa.Value
		for _, r := range *call.Referrers() {
			if ex, ok := r.(*ssa.Extract); ok && ex.Index == 0 {
				flag = ex
			}
		}
		for _, r := range c.returnsOf(fn) {
			rv := resultValues(r)
			if len(rv) != 2 || !isNilConst(rv[1]) || !fi.instrDominates(in, r) {
				continue
			}
			n++
			v := rv[0]
			if u, ok := v.(*ssa.UnOp); ok && u.Op == token.NOT {
				v = u.X
			}
			c.check(flag != nil && v == flag, fmt.Sprintf("processClause hands back the verdict of simpleExist (return at line %d)", c.Fset.Position(r.Pos()).Line), r.Pos(), "returns the flag", "processClause returns "+truncate(c.term(rv[0]), 40)+" at "+c.pos(r.Pos())+" instead of the flag simpleExist computed: whether the ground clause holds no longer matters")
		}
	})
	if n == 0 {
		c.undecided("returns after simpleExist in processClause", fn.Pos(), "none found")
	}
}

// ---- LK1 no method takes its receiver's lock twice -----------------------------------------------------------------------------------------------------

func isSyncLockCall(cc *ssa.CallCommon) (kind string, mu ssa.Value) {
	f := cc.StaticCallee()
	if f == nil || f.Pkg == nil || f.Pkg.Pkg.Path() != "sync" || f.Signature.Recv() == nil || len(cc.Args) == 0 {
		return "", nil
	}
	rt := derefType(f.Signature.Recv().Type())
	n := namedOf(rt)
	if n == nil || (n.Obj().Name() != "Mutex" && n.Obj().Name() != "RWMutex") {
		return "", nil
	}
	switch f.Name() {
	case "Lock", "RLock", "Unlock", "RUnlock":
		return f.Name(), cc.Args[0]
	}
	return "", nil
}

// muFieldOfRecv: if mu is the address of a field of fn's receiver, the field index; else -1.
func muFieldOfRecv(fn *ssa.Function, mu ssa.Value) int {
	fa, ok := mu.(*ssa.FieldAddr)
	if !ok || len(fn.Params) == 0 || fn.Signature.Recv() == nil {
		return -1
	}
	if fa.X != ssa.Value(fn.Params[0]) {
		return -1
	}
	return fa.Field
}

// acquiresRecvLock: does fn (or a method of the same receiver it calls directly, to the given depth) lock field idx of its receiver?
func (c *Ctx) acquiresRecvLock(fn *ssa.Function, idx int, depth int, seen map[*ssa.Function]bool, writeOnly bool) string {
	if fn == nil || fn.Blocks == nil || seen[fn] || depth < 0 {
		return ""
	}
	seen[fn] = true
	found := ""
	allInstrs(fn, func(in ssa.Instruction) {
		if found != "" {
			return
		}
		if _, isGo := in.(*ssa.Go); isGo {
			return
		}
		cc := callCommon(in)
		if cc == nil {
			return
		}
		if k, mu := isSyncLockCall(cc); (k == "Lock" || (k == "RLock" && !writeOnly)) && muFieldOfRecv(fn, mu) == idx {
			found = k + " at " + c.pos(in.Pos())
			return
		}
		if callee := cc.StaticCallee(); callee != nil && callee.Signature.Recv() != nil && len(cc.Args) > 0 && len(fn.Params) > 0 && cc.Args[0] == ssa.Value(fn.Params[0]) {
			if w := c.acquiresRecvLock(callee, idx, depth-1, seen, writeOnly); w != "" {
				found = w
			}
		}
	})
	return found
}

func ruleLK1(c *Ctx, rels ...string) {
	c.Rule("LK1", "no method takes its receiver's lock a second time: while a method holds a mutex of its receiver (from Lock/RLock up to the matching Unlock, or to the end when the unlock is deferred) it calls no method of the same receiver that locks that mutex again — sync mutexes are not re-entrant, the second Lock never returns (a read lock taken again under a read lock is not reported: it is granted unless a writer is queued)", 5)
	n := 0
	for _, fn := range c.srcFuncs(rels...) {
		if fn.Signature.Recv() == nil || len(fn.Params) == 0 || fn.Parent() != nil {
			continue
		}
		fi := c.fi(fn)
		type lk struct {
			in   ssa.Instruction
			kind string
			idx  int
		}
		var locks, unlocks []lk
		allInstrs(fn, func(in ssa.Instruction) {
			if _, isDefer := in.(*ssa.Defer); isDefer {
				return
			}
			if _, isGo := in.(*ssa.Go); isGo {
				return
			}
			cc := callCommon(in)
			if cc == nil {
				return
			}
			k, mu := isSyncLockCall(cc)
			idx := -1
			if mu != nil {
				idx = muFieldOfRecv(fn, mu)
			}
			if idx < 0 {
				return
			}
			switch k {
			case "Lock", "RLock":
				locks = append(locks, lk{in, k, idx})
			case "Unlock", "RUnlock":
				unlocks = append(unlocks, lk{in, k, idx})
			}
		})
		if len(locks) == 0 {
			continue
		}
		allInstrs(fn, func(in ssa.Instruction) {
			call, ok := in.(*ssa.Call)
			if !ok {
				return
			}
			callee := call.Call.StaticCallee()
			if callee == nil || callee.Signature.Recv() == nil || len(call.Call.Args) == 0 || call.Call.Args[0] != ssa.Value(fn.Params[0]) {
				return
			}
			for _, l := range locks {
				if !fi.instrDominates(l.in, in) || l.in == in {
					continue
				}
				released := false
				for _, u := range unlocks {
					if u.idx == l.idx && fi.instrDominates(l.in, u.in) && fi.instrDominates(u.in, in) {
						released = true
					}
				}
				if released {
					continue
				}
				n++
				// a read lock taken again under a read lock succeeds unless a writer is waiting; with one goroutine
				// only a write lock under a read lock, or anything under a write lock, can never be granted
				w := c.acquiresRecvLock(callee, l.idx, 2, map[*ssa.Function]bool{}, l.kind == "RLock")
				c.check(w == "", fmt.Sprintf("%s calls %s with its lock held (line %d)", funcName(fn), callee.Name(), c.Fset.Position(in.Pos()).Line), in.Pos(), "the callee does not take the receiver's lock", fmt.Sprintf("%s holds its receiver's lock (%s at %s) and calls %s, which locks the same mutex (%s): the call never returns", funcName(fn), l.kind, c.pos(l.in.Pos()), callee.Name(), w))
				break
			}
		})
	}
	if n < 5 {
		c.undecided("calls made with the receiver's lock held", token.NoPos, "only %d found", n)
	}
}

// ---- L6e several senders are not served by a single receive --------------------------------------------------------------------------------------------

// refersToChan: does value v (inside fn or one of its closures) denote the channel made by mk in the top function?
func refersToChan(v ssa.Value, mk *ssa.MakeChan, depth int) bool {
	if v == nil || depth > 5 {
		return false
	}
	switch x := v.(type) {
	case *ssa.MakeChan:
		return x == mk
	case *ssa.ChangeType:
		return refersToChan(x.X, mk, depth+1)
	case *ssa.FreeVar:
		return refersToChan(closureBinding(x), mk, depth+1)
	case *ssa.UnOp:
		if x.Op == token.MUL {
			cell := x.X
			if fv, ok := cell.(*ssa.FreeVar); ok {
				cell = closureBinding(fv)
			}
			if a, ok := cell.(*ssa.Alloc); ok {
				for _, r := range *a.Referrers() {
					if st, ok := r.(*ssa.Store); ok && st.Addr == ssa.Value(a) && refersToChan(st.Val, mk, depth+1) {
						return true
					}
				}
			}
		}
	case *ssa.Parameter:
		// bound at a `go f(ch)` site: handled by the caller of this function through the call's arguments
	}
	return false
}

func ruleL6e(c *Ctx, rels ...string) {
	c.Rule("L6e", "several senders are not served by a single receive: when goroutines started in a loop send on an unbuffered channel made by the spawning function, that function receives from the channel in a loop (until it is closed or all have reported), not once — after a single receive every further sender blocks forever and the goroutines outlive the call", 1)
	n := 0
	for _, fn := range c.srcFuncs(rels...) {
		if fn.Parent() != nil {
			continue
		}
		fi := c.fi(fn)
		allInstrs(fn, func(in ssa.Instruction) {
			mk, ok := in.(*ssa.MakeChan)
			if !ok {
				return
			}
			if k, isC := constInt(mk.Size); !isC || k != 0 {
				return
			}
			// goroutines started in a loop of fn whose body sends on mk
			var spawn ssa.Instruction
			allInstrs(fn, func(i2 ssa.Instruction) {
				g, ok := i2.(*ssa.Go)
				if !ok || fi.innermostLoop(i2.Block().Index) == nil {
					return
				}
				var body *ssa.Function
				if mc, ok := g.Call.Value.(*ssa.MakeClosure); ok {
					body, _ = mc.Fn.(*ssa.Function)
				} else if f := g.Call.StaticCallee(); f != nil {
					body = f
				}
				if body == nil || body.Blocks == nil {
					return
				}
				sends := false
				withClosures(body, func(f *ssa.Function) {
					allInstrs(f, func(i3 ssa.Instruction) {
						if s, ok := i3.(*ssa.Send); ok {
							if refersToChan(s.Chan, mk, 0) {
								sends = true
							}
							if p, ok := s.Chan.(*ssa.Parameter); ok && f == body {
								for i, bp := range body.Params {
									if bp == p && i < len(g.Call.Args) && refersToChan(g.Call.Args[i], mk, 0) {
										sends = true
									}
								}
							}
						}
					})
				})
				if sends {
					spawn = i2
				}
			})
			if spawn == nil {
				return
			}
			n++
			// receives in fn (and its non-goroutine closures)
			looped, single := false, ""
			withClosures(fn, func(f *ssa.Function) {
				ffi := c.fi(f)
				allInstrs(f, func(i2 ssa.Instruction) {
					var ch ssa.Value
					switch x := i2.(type) {
					case *ssa.UnOp:
						if x.Op == token.ARROW {
							ch = x.X
						}
					case *ssa.Select:
						for _, st := range x.States {
							if st.Dir == types.RecvOnly && refersToChan(st.Chan, mk, 0) {
								ch = st.Chan
							}
						}
					}
					if ch == nil || !refersToChan(ch, mk, 0) {
						return
					}
					if ffi.innermostLoop(i2.Block().Index) != nil {
						looped = true
					} else {
						single = c.pos(i2.Pos())
					}
				})
			})
			key := fmt.Sprintf("%s serves every sender of the channel made at line %d", funcName(fn), c.Fset.Position(in.Pos()).Line)
			switch {
			case looped:
				c.ok(key, in.Pos(), "received in a loop")
			case single != "":
				c.bad(key, in.Pos(), "goroutines started in a loop at %s send on the unbuffered channel made at %s, but it is received only once, at %s: every sender after the first blocks forever and outlives the call", c.pos(spawn.Pos()), c.pos(in.Pos()), single)
			default:
				c.ok(key, in.Pos(), "not received in this function (handed on)")
			}
		})
	}
	if n == 0 {
		c.trivial("unbuffered channels fed by goroutines started in a loop", token.NoPos, "none in %v", rels)
	}
}

// ---- OK2 the kind that was tested is the kind that is used ----------------------------------------------------------------------------------------------

func ruleOK2(c *Ctx) {
	c.Rule("OK2", "inside a branch taken because an object holds a certain kind of value, that value is the one used: in package triple the region guarded by `o.<kind> != nil` reads o.<kind> again (a sibling branch pasted with another field builds the result from the wrong component)", 3)
	obj := c.mustNamed("triple", "Object")
	if obj == nil {
		return
	}
	n := 0
	for _, fn := range c.srcFuncs("triple") {
		fi := c.fi(fn)
		allInstrs(fn, func(in ssa.Instruction) {
			iff, ok := in.(*ssa.If)
			if !ok {
				return
			}
			bo, ok := iff.Cond.(*ssa.BinOp)
			if !ok || bo.Op != token.NEQ || !isNilConst(bo.Y) {
				return
			}
			ld, ok := bo.X.(*ssa.UnOp)
			if !ok || ld.Op != token.MUL {
				return
			}
			fa, ok := ld.X.(*ssa.FieldAddr)
			if !ok || namedOf(fa.X.Type()) != obj {
				return
			}
			succ := in.Block().Succs[0]
			if len(fi.preds[succ.Index]) != 1 {
				return // the branch is shared with other conditions
			}
			n++
			used := false
			name := fieldName(fa.X.Type(), fa.Field)
			for _, b := range fn.Blocks {
				if !fi.dominates(succ, b) {
					continue
				}
				for _, i2 := range b.Instrs {
					if fa2, ok := i2.(*ssa.FieldAddr); ok && fa2.Field == fa.Field && namedOf(fa2.X.Type()) == obj && c.term(fa2.X) == c.term(fa.X) {
						used = true
					}
				}
			}
			// an accessor that only reports the kind (no value built in the branch) has nothing to use
			builds := false
			for _, b := range fn.Blocks {
				if !fi.dominates(succ, b) {
					continue
				}
				for _, i2 := range b.Instrs {
					if cc := callCommon(i2); cc != nil && cc.StaticCallee() != nil {
						builds = true
					}
				}
			}
			c.check(used || !builds, fmt.Sprintf("%s uses the %s it tested (line %d)", funcName(fn), name, c.Fset.Position(bo.Pos()).Line), bo.Pos(), "the guarded region reads the tested field", fmt.Sprintf("the branch taken when %s.%s != nil (test at %s) never reads that field: the value built there comes from another component", truncate(c.term(fa.X), 30), name, c.pos(bo.Pos())))
		})
	}
	if n < 3 {
		c.undecided("kind tests in package triple", token.NoPos, "only %d found", n)
	}
}

// ---- S1y a graph is complete before it is published -----------------------------------------------------------------------------------------------------

func ruleS1y(c *Ctx) {
	c.Rule("S1y", "a graph becomes visible to other goroutines only when it is complete: in memoryStore.NewGraph every store into a field of the new graph value dominates the map update that registers it under the store's lock (an index map assigned after publication is nil, or racing, for a concurrent Graph()+AddTriples)", 1)
	fn := c.mustFunc("storage/memory", "memoryStore.NewGraph")
	if fn == nil {
		return
	}
	fi := c.fi(fn)
	n := 0
	allInstrs(fn, func(in ssa.Instruction) {
		mu, ok := in.(*ssa.MapUpdate)
		if !ok {
			return
		}
		val := stripConv(mu.Value)
		if !c.freshValue(fn, val) {
			return
		}
		n++
		late := ""
		refs := val.Referrers()
		if refs == nil {
			return
		}
		for _, r := range *refs {
			fa, ok := r.(*ssa.FieldAddr)
			if !ok {
				continue
			}
			for _, r2 := range *fa.Referrers() {
				if st, ok := r2.(*ssa.Store); ok && st.Addr == ssa.Value(fa) && !fi.instrDominates(st, in) {
					late = fieldName(fa.X.Type(), fa.Field) + " at " + c.pos(st.Pos())
				}
			}
		}
		c.check(late == "", "memoryStore.NewGraph publishes a complete graph", in.Pos(), "every field store precedes the registration", "field "+late+" of the new graph is assigned after (or not on every path before) the graph is registered at "+c.pos(in.Pos())+": another goroutine can obtain the graph with that field still unset")
	})
	if n == 0 {
		c.undecided("registration of the new graph in memoryStore.NewGraph", fn.Pos(), "no map update of a freshly allocated value found")
	}
}

// ---- PU1 the builder that was passed in is the builder that is used --------------------------------------------------------------------------------------

func rulePU1(c *Ctx, rels ...string) {
	c.Rule("PU1", "a parser uses the literal builder it was given: every parameter of type literal.Builder of a function with a body is used (a parser that substitutes the default builder ignores the caller's size bound)", 3)
	n := 0
	for _, fn := range c.srcFuncs(rels...) {
		if fn.Parent() != nil {
			continue
		}
		for _, p := range fn.Params {
			if !isNamed(p.Type(), modPath+"/triple/literal", "Builder") || p.Name() == "_" {
				continue
			}
			n++
			refs := 0
			for _, r := range *p.Referrers() {
				if _, isDbg := r.(*ssa.DebugRef); !isDbg {
					refs++
				}
			}
			c.check(refs > 0, funcName(fn)+" uses its literal builder", fn.Pos(), "the parameter is used", funcName(fn)+" never uses its literal.Builder parameter "+p.Name()+": literals are built by some other builder, so the caller's limits are not applied")
		}
	}
	if n < 3 {
		c.undecided("functions taking a literal.Builder", token.NoPos, "only %d found", n)
	}
}

// freshValue: v is allocated in fn, or is the result of a same-package constructor every return of which hands back
// a value allocated in that constructor (newMemory(id)).
func (c *Ctx) freshValue(fn *ssa.Function, v ssa.Value) bool {
	v = stripConv(v)
	if _, ok := v.(*ssa.Alloc); ok {
		return true
	}
	call, ok := v.(*ssa.Call)
	if !ok {
		return false
	}
	h := helperCallee(fn, &call.Call)
	if h == nil || h.Signature.Results().Len() != 1 {
		return false
	}
	rets := c.returnsOf(h)
	if len(rets) == 0 {
		return false
	}
	for _, r := range rets {
		if _, ok := stripConv(resultValues(r)[0]).(*ssa.Alloc); !ok {
			return false
		}
	}
	return true
}
