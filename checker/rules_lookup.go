package main

import (
	"bytes"
	"fmt"
	"go/ast"
	"go/constant"
	"go/printer"
	"go/token"
	"go/types"
	"regexp"
	"sort"
	"strings"

	"golang.org/x/tools/go/ssa"
)

// ---- S8 lookup pipeline ------------------------------------------------------------

// callsTo lists the static calls from fn to callee.
func callsTo(fn *ssa.Function, callee *ssa.Function) []*ssa.Call {
	var out []*ssa.Call
	allInstrs(fn, func(in ssa.Instruction) {
		if call, ok := in.(*ssa.Call); ok && call.Call.StaticCallee() == callee {
			out = append(out, call)
		}
	})
	return out
}

// leafSources follows Phi edges and Extracts to the producing instructions of a value.
func leafSources(v ssa.Value, seen map[ssa.Value]bool, out *[]ssa.Value) {
	if seen[v] {
		return
	}
	seen[v] = true
	switch x := v.(type) {
	case *ssa.Phi:
		for _, e := range x.Edges {
			leafSources(e, seen, out)
		}
	case *ssa.Extract:
		*out = append(*out, x.Tuple)
	case *ssa.ChangeType:
		leafSources(x.X, seen, out)
	default:
		*out = append(*out, v)
	}
}

func ruleS8(c *Ctx) {
	c.Rule("S8", "every channel lookup of the index-owning graph runs the same pipeline: bucket -> time bounds (with a checker built from the caller's options and the method's own predicate) -> optional filter (same predicate) -> sort -> page test before every send; the element sent comes from the sorted set", 11)
	a := c.storeAnchors()
	if a == nil {
		return
	}
	owner, fields := c.indexOwner(a)
	if owner == nil {
		c.undecided("index owner", token.NoPos, "not found")
		return
	}
	rel := strings.TrimPrefix(owner.Obj().Pkg().Path(), modPath+"/")
	newChecker := c.mustFunc(rel, "newChecker")
	applyB := c.mustFunc(rel, "applyGlobalTimeBounds")
	execF := c.mustFunc(rel, "executeFilter")
	sortF := c.mustFunc(rel, "SortByString")
	pageM := c.mustFunc(rel, "checker.CheckLimitAndUpdate")
	if newChecker == nil || applyB == nil || execF == nil || sortF == nil || pageM == nil {
		return
	}
	for _, m := range c.methodsOf(owner) {
		ch := chanParam(m)
		lo := paramOfNamed(m, modPath+"/storage", "LookupOptions")
		if ch == nil || lo == nil {
			continue
		}
		c.analysed(funcName(m))
		fi := c.fi(m)
		pred := paramOfNamed(m, modPath+"/triple/predicate", "Predicate")
		key := funcName(m) + " pipeline"
		var probs []string
		predOK := func(v ssa.Value, what string) {
			if pred != nil {
				if !isValueOfParam(v, pred) {
					probs = append(probs, fmt.Sprintf("%s receives %s instead of the method's predicate parameter %s (kind/instant test lost)", what, c.term(v), pred.Name()))
				}
			} else if !isNilConst(v) {
				probs = append(probs, fmt.Sprintf("%s receives %s although the method fixes no predicate", what, c.term(v)))
			}
		}
		ncs := callsTo(m, newChecker)
		abs := callsTo(m, applyB)
		efs := callsTo(m, execF)
		sfs := callsTo(m, sortF)
		if len(ncs) != 1 || len(abs) != 1 || len(sfs) != 1 || len(efs) != 1 {
			c.bad(key, m.Pos(), "expected exactly one call each of newChecker/applyGlobalTimeBounds/executeFilter/SortByString, found %d/%d/%d/%d: a pipeline stage is skipped or duplicated", len(ncs), len(abs), len(efs), len(sfs))
			continue
		}
		nc, ab, ef, sf := ncs[0], abs[0], efs[0], sfs[0]
		if !isValueOfParam(nc.Call.Args[0], lo) {
			probs = append(probs, "newChecker is not given the caller's options")
		}
		predOK(nc.Call.Args[1], "newChecker")
		if f, _ := bucketOf(ab.Call.Args[0]); f == nil || !fields[f] {
			probs = append(probs, "applyGlobalTimeBounds is not fed directly from an index bucket: "+c.term(ab.Call.Args[0]))
		}
		if ab.Call.Args[1] != ssa.Value(nc) {
			probs = append(probs, "applyGlobalTimeBounds does not use the checker built by newChecker")
		}
		// filter input = bounds output
		var src []ssa.Value
		leafSources(ef.Call.Args[0], map[ssa.Value]bool{}, &src)
		if len(src) != 1 || src[0] != ssa.Value(ab) {
			probs = append(probs, "executeFilter input is not the output of applyGlobalTimeBounds (filter before bounds?)")
		}
		predOK(ef.Call.Args[1], "executeFilter")
		if !fi.instrDominates(ab, ef) {
			probs = append(probs, "applyGlobalTimeBounds does not precede executeFilter")
		}
		// the filter options used are the caller's, or the driver's own Latest options under LatestAnchor
		// sort input = {bounds output, filter output}
		src = nil
		leafSources(sf.Call.Args[0], map[ssa.Value]bool{}, &src)
		hasF, hasB, other := false, false, false
		for _, s := range src {
			switch s {
			case ssa.Value(ef):
				hasF = true
			case ssa.Value(ab):
				hasB = true
			default:
				other = true
			}
		}
		if !hasF || other {
			probs = append(probs, "SortByString input does not come from the filter/bounds stages (filter result dropped?)")
		}
		_ = hasB
		if !fi.instrDominates(ab, sf) {
			probs = append(probs, "applyGlobalTimeBounds does not precede SortByString")
		}
		// sends
		nsend := 0
		allInstrs(m, func(in ssa.Instruction) {
			snd, ok := in.(*ssa.Send)
			if !ok || !isValueOfParam(snd.Chan, ch) {
				return
			}
			nsend++
			paged := false
			for _, ft := range fi.factsAt(snd.Block()) {
				if call, ok := ft.Cond.(*ssa.Call); ok && ft.Truth && call.Call.StaticCallee() == pageM && len(call.Call.Args) == 1 && call.Call.Args[0] == ssa.Value(nc) {
					paged = true
				}
			}
			if !paged {
				probs = append(probs, fmt.Sprintf("send at %s is not guarded by the true edge of CheckLimitAndUpdate of this lookup's checker", c.pos(snd.Pos())))
			}
			if !fi.instrDominates(sf, snd) {
				probs = append(probs, fmt.Sprintf("send at %s is not preceded by the sort", c.pos(snd.Pos())))
			}
			// element provenance: st[...] where st is the map filled by SortByString
			okElem := false
			var walk func(v ssa.Value, d int)
			walk = func(v ssa.Value, d int) {
				if d > 6 {
					return
				}
				switch x := v.(type) {
				case *ssa.Lookup:
					if x.X == sf.Call.Args[1] {
						okElem = true
					}
				case *ssa.Call:
					if x.Call.StaticCallee() != nil && x.Call.StaticCallee().Signature.Recv() != nil && len(x.Call.Args) == 1 {
						walk(x.Call.Args[0], d+1)
					}
				case *ssa.Extract:
					walk(x.Tuple, d+1)
				}
			}
			walk(snd.X, 0)
			if !okElem {
				probs = append(probs, fmt.Sprintf("element sent at %s (%s) is not taken from the sorted set", c.pos(snd.Pos()), c.term(snd.X)))
			}
		})
		if nsend == 0 {
			probs = append(probs, "no send on the result channel")
		}
		if len(probs) > 0 {
			c.bad(key, m.Pos(), "%s", strings.Join(uniq(probs), "; "))
		} else {
			c.ok(key, m.Pos(), "bounds(bucket, newChecker(lo,%s)) -> executeFilter(.., %s, ..) -> SortByString -> %d page-guarded send(s) of sorted elements", predName(pred), predName(pred), nsend)
		}
	}
}

func predName(p *ssa.Parameter) string {
	if p == nil {
		return "nil"
	}
	return p.Name()
}

// ---- S9 kind and anchor match ------------------------------------------------------

type s9env struct{ qImm, sImm bool }

func ruleS9(c *Ctx) {
	c.Rule("S9", "the bucket post-filter lets a stored predicate through only if it has the kind of the looked-up predicate and, when both are temporal, only after the instants were compared equal (abstract interpretation of checker.CheckGlobalTimeBounds over query/stored kind)", 3)
	fn := c.mustFunc("storage/memory", "checker.CheckGlobalTimeBounds")
	if fn == nil {
		return
	}
	chk := c.namedType("storage/memory", "checker")
	predPkg := c.pkg("triple/predicate")
	if chk == nil || predPkg == nil {
		c.undecided("anchors", token.NoPos, "checker type or predicate package missing")
		return
	}
	immObj, _ := predPkg.Types.Scope().Lookup("Immutable").(*types.Const)
	tmpObj, _ := predPkg.Types.Scope().Lookup("Temporal").(*types.Const)
	if immObj == nil || tmpObj == nil {
		c.undecided("anchors", token.NoPos, "predicate.Immutable/Temporal constants missing")
		return
	}
	fi := c.fi(fn)
	for _, b := range fn.Blocks {
		if fi.reachable(b) && inLoop(fi, b) {
			c.undecided("CheckGlobalTimeBounds shape", fn.Pos(), "the function has a loop; path enumeration not applicable")
			return
		}
	}
	recv, p := fn.Params[0], fn.Params[1]
	isFieldOfRecv := func(v ssa.Value, name string) bool {
		u, ok := v.(*ssa.UnOp)
		if !ok || u.Op != token.MUL {
			return false
		}
		fa, ok := u.X.(*ssa.FieldAddr)
		return ok && isValueOfParam(fa.X, recv) && fieldName(fa.X.Type(), fa.Field) == name
	}
	// which field of the checker holds the query predicate / its anchor: by type
	opField, otaField := "", ""
	st := chk.Underlying().(*types.Struct)
	for i := 0; i < st.NumFields(); i++ {
		f := st.Field(i)
		if isNamed(f.Type(), modPath+"/triple/predicate", "Predicate") {
			opField = fieldCanon(f)
		}
		if isNamed(f.Type(), "time", "Time") {
			otaField = fieldCanon(f)
		}
	}
	if opField == "" || otaField == "" {
		c.undecided("checker fields", chk.Obj().Pos(), "the checker no longer carries the looked-up predicate and its anchor")
		return
	}
	// classify a value as Type() of query / stored
	typeOf := func(v ssa.Value) string {
		call, ok := v.(*ssa.Call)
		if !ok || call.Call.StaticCallee() == nil || call.Call.StaticCallee().Name() != "Type" || len(call.Call.Args) != 1 {
			return ""
		}
		if !isNamed(call.Call.Args[0].Type(), modPath+"/triple/predicate", "Predicate") {
			return ""
		}
		if isValueOfParam(call.Call.Args[0], p) {
			return "s"
		}
		if isFieldOfRecv(call.Call.Args[0], opField) {
			return "q"
		}
		return ""
	}
	constKind := func(v ssa.Value) (imm bool, ok bool) {
		k, isC := v.(*ssa.Const)
		if !isC || k.Value == nil {
			return false, false
		}
		if constant.Compare(k.Value, token.EQL, immObj.Val()) {
			return true, true
		}
		if constant.Compare(k.Value, token.EQL, tmpObj.Val()) {
			return false, true
		}
		return false, false
	}
	// eval returns (known, value, isEqualTest)
	eval := func(cond ssa.Value, env s9env) (known bool, val bool, equalTest int) {
		neg := false
		for {
			u, ok := cond.(*ssa.UnOp)
			if !ok || u.Op != token.NOT {
				break
			}
			neg = !neg
			cond = u.X
		}
		fin := func(k, v bool) (bool, bool, int) { return k, v != neg, 0 }
		switch x := cond.(type) {
		case *ssa.BinOp:
			if x.Op != token.EQL && x.Op != token.NEQ {
				return false, false, 0
			}
			eq := x.Op == token.EQL
			a, b := x.X, x.Y
			if isNilConst(a) {
				a, b = b, a
			}
			if isNilConst(b) {
				switch {
				case isFieldOfRecv(a, opField):
					return fin(true, !eq) // query predicate present in the cases examined
				case isFieldOfRecv(a, otaField):
					return fin(true, (!env.qImm) != eq) // ota != nil iff the query predicate is temporal (newChecker)
				}
				if ex, ok := a.(*ssa.Extract); ok && ex.Index == 1 {
					if call, ok := ex.Tuple.(*ssa.Call); ok && call.Call.StaticCallee() != nil && call.Call.StaticCallee().Name() == "TimeAnchor" && isValueOfParam(call.Call.Args[0], p) {
						return fin(true, (!env.sImm) == eq) // err == nil iff stored predicate is temporal
					}
				}
				return false, false, 0
			}
			ta, tb := typeOf(a), typeOf(b)
			if ta != "" && tb != "" && ta != tb {
				return fin(true, (env.qImm == env.sImm) == eq)
			}
			if ta == "" {
				a, b, ta, tb = b, a, tb, ta
			}
			if ta != "" {
				if imm, ok := constKind(b); ok {
					have := env.sImm
					if ta == "q" {
						have = env.qImm
					}
					return fin(true, (have == imm) == eq)
				}
			}
		case *ssa.Call:
			if f := x.Call.StaticCallee(); f != nil && f.Name() == "Equal" && isNamed(f.Signature.Recv().Type(), "time", "Time") {
				// the instant comparison: value unknown, but remember the outcome on each edge
				if neg {
					return false, false, -1
				}
				return false, false, 1
			}
		}
		return false, false, 0
	}
	type res struct {
		ret        *ssa.Return
		viaEqual   bool
		retTrue    bool
		retKnown   bool
		pathBlocks []int
	}
	var explore func(b *ssa.BasicBlock, prev *ssa.BasicBlock, env s9env, equalOK bool, path []int, out *[]res)
	explore = func(b *ssa.BasicBlock, prev *ssa.BasicBlock, env s9env, equalOK bool, path []int, out *[]res) {
		path = append(path, b.Index)
		if fi.cutAt[b.Index] >= 0 {
			return
		}
		switch t := b.Instrs[len(b.Instrs)-1].(type) {
		case *ssa.Return:
			v := t.Results[0]
			if phi, ok := v.(*ssa.Phi); ok && prev != nil {
				for i, pb := range b.Preds {
					if pb == prev {
						v = phi.Edges[i]
					}
				}
			}
			r := res{ret: t, viaEqual: equalOK, pathBlocks: append([]int{}, path...)}
			if k, ok := v.(*ssa.Const); ok && k.Value != nil && k.Value.Kind() == constant.Bool {
				r.retKnown, r.retTrue = true, constant.BoolVal(k.Value)
			}
			*out = append(*out, r)
		case *ssa.If:
			known, val, eqt := eval(t.Cond, env)
			for si, s := range b.Succs {
				takeTrue := si == 0
				if known && val != takeTrue {
					continue
				}
				e := equalOK
				if eqt != 0 {
					// eqt=1: cond is Equal(); eqt=-1: cond is !Equal()
					if (eqt == 1) == takeTrue {
						e = true
					}
				}
				explore(s, b, env, e, path, out)
			}
		case *ssa.Jump:
			explore(b.Succs[0], b, env, equalOK, path, out)
		}
	}
	names := map[bool]string{true: "immutable", false: "temporal"}
	for _, env := range []s9env{{true, false}, {false, true}, {false, false}, {true, true}} {
		var out []res
		explore(fn.Blocks[0], nil, env, false, nil, &out)
		key := fmt.Sprintf("CheckGlobalTimeBounds query=%s stored=%s", names[env.qImm], names[env.sImm])
		var bad []string
		nTrue := 0
		for _, r := range out {
			mayTrue := !r.retKnown || r.retTrue
			if !mayTrue {
				continue
			}
			nTrue++
			switch {
			case env.qImm != env.sImm:
				bad = append(bad, fmt.Sprintf("a feasible path (blocks %v) returns true at %s although the kinds differ", r.pathBlocks, c.pos(r.ret.Pos())))
			case !env.qImm && !env.sImm && !r.viaEqual:
				bad = append(bad, fmt.Sprintf("a feasible path (blocks %v) returns true at %s without passing the instant-equality test", r.pathBlocks, c.pos(r.ret.Pos())))
			}
		}
		switch {
		case len(out) == 0:
			c.undecided(key, fn.Pos(), "no feasible path found by the abstract interpretation")
		case len(bad) > 0:
			c.bad(key, fn.Pos(), "%s", strings.Join(uniq(bad), "; "))
		case env.qImm == env.sImm && nTrue == 0:
			c.bad(key, fn.Pos(), "no feasible path returns true for matching kinds: every stored triple would be rejected")
		default:
			c.ok(key, fn.Pos(), "%d feasible paths enumerated, %d may return true; none violates the kind/instant requirement", len(out), nTrue)
		}
	}
	// newChecker sets the anchor field from the query predicate's TimeAnchor (the assumption used above)
	if nc := c.mustFunc("storage/memory", "newChecker"); nc != nil {
		okAnchor := false
		walkHelpers(nc, 2, func(_ *ssa.Function, in ssa.Instruction, _ ssa.Instruction) {
			if call, ok := in.(*ssa.Call); ok && call.Call.StaticCallee() != nil && call.Call.StaticCallee().Name() == "TimeAnchor" {
				okAnchor = true
			}
		})
		c.check(okAnchor, "newChecker derives the anchor from the query predicate", nc.Pos(), "calls TimeAnchor on the predicate it stores", "newChecker no longer calls TimeAnchor: the instant of a temporal query predicate is never recorded")
	}
}

// ---- S10 bound duality ---------------------------------------------------------------

var lowerRe = regexp.MustCompile(`LowerAnchor|LowerBound`)
var upperRe = regexp.MustCompile(`UpperAnchor|UpperBound`)

func boundClass(term string) string {
	l, u := lowerRe.MatchString(term), upperRe.MatchString(term)
	owner := "o" // lookup options
	switch {
	case strings.Contains(term, "BoundAlias"):
		owner = "r" // value supplied by the row
	case strings.Contains(term, "LowerBound") || strings.Contains(term, "UpperBound"):
		owner = "c" // clause level
	}
	switch {
	case l && u:
		return "?"
	case l:
		return "L" + owner
	case u:
		return "U" + owner
	}
	return "v"
}

func dualClass(s string) string {
	switch {
	case strings.HasPrefix(s, "L"):
		return "U" + s[1:]
	case strings.HasPrefix(s, "U"):
		return "L" + s[1:]
	}
	return s
}

func ruleS10(c *Ctx, min int, rels ...string) {
	c.Rule("S10", "lower and upper time bounds are treated as mirror images: in every function comparing instants against paired bound fields (LookupOptions.Lower/UpperAnchor, GraphClause.P/O Lower/UpperBound and their aliases) the multiset of order relations is closed under time reversal (v<L <-> U<v, L<L' <-> U'<U)", min)
	// the pair table must still exist
	for _, pr := range [][3]string{{"storage", "LookupOptions", "LowerAnchor"}, {"storage", "LookupOptions", "UpperAnchor"},
		{"bql/semantic", "GraphClause", "PLowerBound"}, {"bql/semantic", "GraphClause", "PUpperBound"},
		{"bql/semantic", "GraphClause", "OLowerBound"}, {"bql/semantic", "GraphClause", "OUpperBound"},
		{"bql/semantic", "GraphClause", "PLowerBoundAlias"}, {"bql/semantic", "GraphClause", "PUpperBoundAlias"},
		{"bql/semantic", "GraphClause", "OLowerBoundAlias"}, {"bql/semantic", "GraphClause", "OUpperBoundAlias"}} {
		n := c.namedType(pr[0], pr[1])
		found := false
		if n != nil {
			if st, ok := n.Underlying().(*types.Struct); ok {
				for i := 0; i < st.NumFields(); i++ {
					if st.Field(i).Name() == pr[2] {
						found = true
					}
				}
			}
		}
		if !found {
			c.undecided("pair table "+pr[1]+"."+pr[2], token.NoPos, "paired bound field missing; the lower/upper classification is no longer anchored")
		}
	}
	for _, fn := range c.srcFuncs(rels...) {
		type relT struct {
			a, b string
			pos  token.Pos
		}
		var rs []relT
		unknown := false
		allInstrs(fn, func(in ssa.Instruction) {
			call, ok := in.(*ssa.Call)
			if !ok {
				return
			}
			f := call.Call.StaticCallee()
			if f == nil || f.Signature.Recv() == nil || !isNamed(f.Signature.Recv().Type(), "time", "Time") || len(call.Call.Args) != 2 {
				return
			}
			if f.Name() != "Before" && f.Name() != "After" {
				return
			}
			ca, cb := boundClass(c.term(call.Call.Args[0])), boundClass(c.term(call.Call.Args[1]))
			if ca == "?" || cb == "?" {
				unknown = true
			}
			if f.Name() == "After" {
				ca, cb = cb, ca
			}
			rs = append(rs, relT{ca, cb, in.Pos()})
		})
		bounded := false
		for _, r := range rs {
			if r.a != "v" || r.b != "v" {
				bounded = true
			}
		}
		if !bounded {
			continue
		}
		c.analysed(funcName(fn))
		key := funcName(fn) + " bound relations"
		if unknown {
			c.undecided(key, fn.Pos(), "an operand mixes lower and upper bound provenance")
			continue
		}
		cnt := map[string]int{}
		for _, r := range rs {
			cnt[r.a+"<"+r.b]++
		}
		var bad []string
		for k, n := range cnt {
			parts := strings.Split(k, "<")
			d := dualClass(parts[1]) + "<" + dualClass(parts[0])
			if cnt[d] != n {
				bad = append(bad, fmt.Sprintf("%d× %s but %d× its mirror image %s", n, k, cnt[d], d))
			}
		}
		sort.Strings(bad)
		var ks []string
		for k, n := range cnt {
			ks = append(ks, fmt.Sprintf("%s×%d", k, n))
		}
		sort.Strings(ks)
		if len(bad) > 0 {
			c.bad(key, rs[0].pos, "relations {%s} are not closed under time reversal: %s (one side of the window is compared the wrong way round or not at all)", strings.Join(ks, " "), strings.Join(bad, "; "))
		} else {
			c.ok(key, rs[0].pos, "relations {%s} closed under lower<->upper time reversal", strings.Join(ks, " "))
		}
	}
}

// ---- S11 filter tables and twins ------------------------------------------------------------

// switchCaseConsts returns the constant objects named in the case clauses of the first switch over an expression of type t in fn's body.
func (c *Ctx) switchCaseConsts(decl *ast.FuncDecl, info *types.Info, t types.Type) (map[string]bool, bool) {
	out := map[string]bool{}
	found := false
	ast.Inspect(decl.Body, func(n ast.Node) bool {
		sw, ok := n.(*ast.SwitchStmt)
		if !ok || sw.Tag == nil || found {
			return true
		}
		if tt := info.TypeOf(sw.Tag); tt == nil || !types.Identical(tt, t) {
			return true
		}
		found = true
		for _, cl := range sw.Body.List {
			for _, e := range cl.(*ast.CaseClause).List {
				if tv, ok := info.Types[e]; ok && tv.Value != nil {
					out[tv.Value.ExactString()] = true
				}
			}
		}
		return false
	})
	return out, found
}

func (c *Ctx) findDecl(rel, name string) (*ast.FuncDecl, *types.Info) {
	p := c.pkg(rel)
	if p == nil {
		return nil, nil
	}
	for _, f := range p.Syntax {
		for _, d := range f.Decls {
			fd, ok := d.(*ast.FuncDecl)
			if !ok {
				continue
			}
			n := fd.Name.Name
			if fd.Recv != nil && len(fd.Recv.List) == 1 {
				t := fd.Recv.List[0].Type
				if s, ok := t.(*ast.StarExpr); ok {
					t = s.X
				}
				if id, ok := t.(*ast.Ident); ok {
					n = id.Name + "." + n
				}
			}
			if n == name {
				return fd, p.TypesInfo
			}
		}
	}
	return nil, nil
}

func ruleS11(c *Ctx) {
	c.Rule("S11", "filter operations are handled exhaustively and alike: constants of filter.Operation = values of SupportedOperations = cases of Operation.String = cases of the driver's executeFilter = cases of the planner's compatibleBindingsInClauseForFilterOperation; isImmutableFilter and isTemporalFilter are the same code modulo the kind constant", 5)
	fp := c.pkg("bql/planner/filter")
	opT := c.mustNamed("bql/planner/filter", "Operation")
	if fp == nil || opT == nil {
		return
	}
	consts := map[string]string{}
	for _, n := range fp.Types.Scope().Names() {
		if k, ok := fp.Types.Scope().Lookup(n).(*types.Const); ok && types.Identical(k.Type(), opT) {
			consts[k.Val().ExactString()] = n
		}
	}
	if len(consts) < 3 {
		c.undecided("filter.Operation constants", token.NoPos, "fewer than 3 operation constants found")
		return
	}
	constSet := map[string]bool{}
	for v := range consts {
		constSet[v] = true
	}
	compare := func(name string, got map[string]bool, pos token.Pos) {
		var missing, extra []string
		for v := range constSet {
			if !got[v] {
				missing = append(missing, consts[v])
			}
		}
		for v := range got {
			if !constSet[v] {
				extra = append(extra, v)
			}
		}
		sort.Strings(missing)
		key := "operations handled by " + name
		if len(missing) > 0 || len(extra) > 0 {
			c.bad(key, pos, "operations without a case/entry: %v; entries that are no operation: %v", missing, extra)
		} else {
			c.ok(key, pos, "covers all %d filter operations", len(constSet))
		}
	}
	// SupportedOperations values
	got := map[string]bool{}
	var pos token.Pos
	for _, f := range fp.Syntax {
		ast.Inspect(f, func(n ast.Node) bool {
			vs, ok := n.(*ast.ValueSpec)
			if !ok || len(vs.Names) != 1 || vs.Names[0].Name != "SupportedOperations" || len(vs.Values) != 1 {
				return true
			}
			pos = vs.Pos()
			if cl, ok := vs.Values[0].(*ast.CompositeLit); ok {
				for _, e := range cl.Elts {
					if kv, ok := e.(*ast.KeyValueExpr); ok {
						if tv, ok := fp.TypesInfo.Types[kv.Value]; ok && tv.Value != nil {
							got[tv.Value.ExactString()] = true
						}
						if tvk, ok := fp.TypesInfo.Types[kv.Key]; ok && tvk.Value != nil {
							k := constant.StringVal(tvk.Value)
							if k != strings.ToLower(k) {
								c.bad("SupportedOperations key "+k, kv.Pos(), "key %q is not lower case; the hook lower-cases the function name before the lookup, so this operation can never be selected", k)
							}
						}
					}
				}
			}
			return false
		})
	}
	if pos == token.NoPos {
		c.undecided("filter.SupportedOperations", token.NoPos, "variable not found")
	} else {
		compare("filter.SupportedOperations", got, pos)
	}
	for _, s := range [][2]string{{"bql/planner/filter", "Operation.String"}, {"storage/memory", "executeFilter"}, {"bql/planner", "compatibleBindingsInClauseForFilterOperation"}} {
		d, info := c.findDecl(s[0], s[1])
		if d == nil {
			c.undecided("operations handled by "+s[1], token.NoPos, "function not found")
			continue
		}
		cs, ok := c.switchCaseConsts(d, info, opT)
		if !ok {
			c.undecided("operations handled by "+s[1], d.Pos(), "no switch over filter.Operation found")
			continue
		}
		compare(s[1], cs, d.Pos())
	}
	// twins
	d1, _ := c.findDecl("storage/memory", "isImmutableFilter")
	d2, _ := c.findDecl("storage/memory", "isTemporalFilter")
	if d1 == nil || d2 == nil {
		c.undecided("filter twins", token.NoPos, "isImmutableFilter/isTemporalFilter not found")
		return
	}
	norm := func(d *ast.FuncDecl) string {
		var buf bytes.Buffer
		printer.Fprint(&buf, c.Fset, d.Body)
		s := buf.String()
		s = strings.NewReplacer("IsImmutable", "KIND", "IsTemporal", "KIND", "Immutable", "Kind", "Temporal", "Kind").Replace(s)
		return s
	}
	if n1, n2 := norm(d1), norm(d2); n1 != n2 {
		l1, l2 := strings.Split(n1, "\n"), strings.Split(n2, "\n")
		diff := ""
		for i := 0; i < len(l1) && i < len(l2); i++ {
			if l1[i] != l2[i] {
				diff = fmt.Sprintf("first difference: %q vs %q", strings.TrimSpace(l1[i]), strings.TrimSpace(l2[i]))
				break
			}
		}
		if diff == "" {
			diff = fmt.Sprintf("bodies differ in length (%d vs %d lines)", len(l1), len(l2))
		}
		c.bad("isImmutableFilter ~ isTemporalFilter", d2.Pos(), "the two kind filters are no longer the same code modulo the kind constant: %s", diff)
	} else {
		c.ok("isImmutableFilter ~ isTemporalFilter", d2.Pos(), "bodies identical modulo Immutable<->Temporal (%d lines)", strings.Count(norm(d1), "\n"))
	}
}

// ---- S12 equality by rendering ----------------------------------------------------------------

func ruleS12(c *Ctx, rels ...string) {
	c.Rule("S12", "predicate and instant equality is never decided by comparing zone-dependent renderings: no ==/!= has an operand that is directly the result of (*Predicate).String or time.Time.Format/String", 0)
	n := 0
	for _, fn := range c.srcFuncs(rels...) {
		allInstrs(fn, func(in ssa.Instruction) {
			bo, ok := in.(*ssa.BinOp)
			if !ok || (bo.Op != token.EQL && bo.Op != token.NEQ) {
				return
			}
			for _, op := range []ssa.Value{bo.X, bo.Y} {
				call, ok := op.(*ssa.Call)
				if !ok {
					continue
				}
				f := call.Call.StaticCallee()
				if f == nil || f.Signature.Recv() == nil {
					continue
				}
				rt := f.Signature.Recv().Type()
				if (isNamed(rt, modPath+"/triple/predicate", "Predicate") && f.Name() == "String") ||
					(isNamed(rt, "time", "Time") && (f.Name() == "Format" || f.Name() == "String")) {
					n++
					c.bad(funcName(fn)+" compares "+f.Name()+"() renderings", in.Pos(), "%s at %s decides equality on the text produced by %s, which differs for the same instant in different zones", bo.Op, c.pos(in.Pos()), funcName(f))
					return
				}
			}
		})
	}
	if n == 0 {
		c.ok("rendering comparisons", token.NoPos, "no direct ==/!= on a predicate or time rendering in %v", rels)
	}
}
