package main

var properties = map[string]*Property{}

func reg(p *Property) { properties[p.ID] = p }

const commonAssume = "go/types and go/ssa (golang.org/x/tools v0.50.0) represent /repo's source faithfully; the Go memory model, sync, maps and channels behave as specified"

func init() {
	for _, id := range []string{"C01", "C02", "C03", "C04", "C05", "C06", "C08", "C09", "C10", "C11", "C12", "C13", "C14", "C15", "C16", "C17", "C18", "C19", "C20"} {
		notApplicable[id] = "check not built yet in this revision of /verif (work in progress; see DESIGN.md §4 for the rules planned)"
	}
	reg(&Property{
		ID:          "C01",
		Explanation: "TBD",
		Rules:       []func(*Ctx){ruleS1, ruleS2, ruleS3},
	})
	reg(&Property{
		ID:          "C02",
		Explanation: "TBD",
		Rules: []func(*Ctx){ruleS1, ruleS8, ruleS9, func(c *Ctx) { ruleS10(c, 1, "storage/memory") }},
	})
	reg(&Property{
		ID:          "C09",
		Explanation: "TBD",
		Rules: []func(*Ctx){ruleS8, func(c *Ctx) { ruleS10(c, 1, "storage/memory") }, ruleS11, func(c *Ctx) { ruleS12(c, "storage/memory", "storage/memoization") }, ruleS6},
	})
	reg(&Property{
		ID:          "C06",
		Explanation: "TBD",
		Rules:       []func(*Ctx){ruleH1, ruleH2, ruleH3},
	})
	reg(&Property{
		ID:          "C17",
		Explanation: "TBD",
		Rules:       []func(*Ctx){ruleG1, ruleG2, ruleG3},
	})
	reg(&Property{
		ID:          "C18",
		Explanation: "TBD",
		Rules:       []func(*Ctx){ruleG4, ruleG5, ruleG6, ruleG7},
	})
	reg(&Property{
		ID:          "C16",
		Explanation: "TBD",
		Rules:       []func(*Ctx){ruleX1, ruleX1b, ruleX2, ruleX3, ruleX4, ruleX5},
	})
	reg(&Property{
		ID:          "C19",
		Explanation: "TBD",
		Rules:       []func(*Ctx){ruleM1, ruleM2, ruleM3, ruleM4M5},
	})
	reg(&Property{
		ID:          "C03",
		Explanation: "TBD",
		Rules:       []func(*Ctx){ruleP1, ruleP2, ruleP3, func(c *Ctx) { ruleS10(c, 3, "bql/planner", "bql/semantic") }},
	})
	reg(&Property{
		ID:          "C04",
		Explanation: "TBD",
		Rules:       []func(*Ctx){ruleP9, ruleP5, func(c *Ctx) { ruleP8(c, "bql/planner") }},
	})
	reg(&Property{
		ID:          "C12",
		Explanation: "TBD",
		Rules:       []func(*Ctx){ruleP5, ruleP6},
	})
	reg(&Property{
		ID:          "C11",
		Explanation: "TBD",
		Rules:       []func(*Ctx){ruleP7},
	})
	reg(&Property{
		ID:          "C10",
		Explanation: "TBD",
		Rules:       []func(*Ctx){ruleP4},
	})
	reg(&Property{
		ID:          "C13",
		Explanation: "TBD",
		Rules:       []func(*Ctx){func(c *Ctx) { ruleP10(c, "bql/table", "bql/semantic", "bql/planner") }, ruleP12},
	})
	reg(&Property{
		ID:          "C14",
		Explanation: "TBD",
		Rules:       []func(*Ctx){func(c *Ctx) { ruleP11(c, "bql/...", "storage/...") }},
	})
	reg(&Property{
		ID:          "C15",
		Explanation: "TBD",
		Rules:       []func(*Ctx){func(c *Ctx) { ruleL1(c, 20, "./triple/...", "./io/...") }},
	})
	reg(&Property{
		ID:          "C08",
		Explanation: "TBD",
		Rules:       []func(*Ctx){func(c *Ctx) { ruleL1(c, 80, "./triple/...", "./io/...", "./bql/...", "./storage/...") }},
	})
	reg(&Property{
		ID: "C07",
		Explanation: "Decides, for every path of the analysed functions and hence every schedule that can drive them: S3 every access to a lock-guarded field (frozen guard table: memoryStore.graphs, the seven memory indexes, the five memoizer caches, Table rows/bindings) is made with the owner's lock held in the required mode; S4 no method re-acquires its receiver's lock through a same-receiver call; S5 every Store/Graph method with a result channel closes it exactly once on every return, error returns included; S6 no lookup (or module callee it passes the pointer to) stores through its *LookupOptions; S7 AddTriples is one critical section; S2 create/get/drop test presence under the lock. Linearizability, deadlock freedom in general and absence of all panics are NOT decided.",
		Rules:       []func(*Ctx){ruleS3, ruleS4, ruleS5, ruleS6, ruleS7, ruleS2},
		Level:       "For C07: lockset (S3), lock re-entry (S4), close-exactly-once typestate on all returns (S5), options never written (S6), batch atomicity (S7).",
		Note:        "Trusted: the frozen guard table field->lock (a new map/slice field on a lock-owning type is reported until added); races on data outside the table are not seen; sync/chan semantics.",
		Technique:   "static analysis: lockset + typestate path-state dataflow over go/ssa with dominators",
		Trusted:     []string{"guard table of rule S3 (rules_store.go lockOwners)", "tableSequentialOnly exemptions (3 Table methods, reasons in source)", "golang.org/x/tools go/ssa"},
		NotDecided:  []string{"linearizability of histories", "deadlocks that depend on the consumer of a result channel (lookups send while holding the read lock by design)", "panics", "data races on state outside the guard table"},
		Assumptions: []string{commonAssume},
	})
}
