package main

var properties = map[string]*Property{}

func reg(p *Property) {
	if p.Technique == "" {
		p.Technique = "static analysis (go/types + go/ssa; dominance, path-state dataflow, helper-aware summaries, table comparison): " + p.Level + "; further structural rules per DESIGN.md §0.1"
	}
	if len(p.Assumptions) == 0 {
		p.Assumptions = []string{commonAssume}
	} else {
		p.Assumptions = append(p.Assumptions, commonAssume)
	}
	if p.Note == "" {
		p.Note = "Trusted: " + join(p.Trusted)
	}
	properties[p.ID] = p
}

func join(xs []string) string {
	s := ""
	for i, x := range xs {
		if i > 0 {
			s += "; "
		}
		s += x
	}
	return s
}

const commonAssume = "go/packages, go/types and go/ssa (golang.org/x/tools v0.50.0) represent /repo's current source faithfully; the Go language, sync, maps, channels and the standard library behave as documented; reflection and unsafe are not used on the analysed paths (checked by reading: only reflect.DeepEqual)"

const trustedCore = "the checker itself (/verif/checker), go/ssa and go/types"

func scope(rels ...string) []string { return rels }

func init() {
	engine := []string{"triple/...", "io", "bql/...", "storage/..."}
	_ = engine
	reg(&Property{
		ID:          "C01",
		Explanation: "Decides on every path of the memory driver: S1 the seven indexes are written, deleted and read under the same keys (bucket key signature and element key = full triple UUID agree between AddTriples, RemoveTriples and each of the twelve readers; each index is freshly allocated per graph and no package-level map exists); S2 create/get/drop of a graph name test presence first and fail without effect otherwise; S3 every access to the namespace map and the indexes holds the owner's lock in the required mode. The identity clause is C06's rule H2. Also (DESIGN §0.1): S1x bucket drops guarded by that bucket's emptiness and NewGraph registering a value allocated in the call; S2y presence test and map update inside one write-locked section; H1x/H3x the identity hashes read whole varints from buffers still owned; M4/M5 the memoizing wrapper's keys use full UUIDs. Not decided: set semantics over histories as such. Round 3: S7b no return inside the batch loop; S3d guarded fields only touched by their owner; M3b. Round 7: S1y a graph is complete before it is published.",
		Rules:       []func(*Ctx){ruleS1y, ruleM4b, ruleS7c, ruleS3d, ruleS7b, ruleM3b, ruleH1x, ruleH3x, ruleM4M5, ruleS1, ruleS1x, ruleS2, ruleS2y, ruleS3, ruleS7},
		Level:       "index key agreement between writer, deleter and readers (S1), guarded namespace operations (S2), lockset (S3), batch atomicity (S7)",
		Trusted:     []string{"Go map semantics", "guard table of S3", trustedCore},
		NotDecided:  []string{"set semantics over arbitrary histories as such (follows from map semantics once S1 holds, but no rule states it)", "idempotence of re-add / absent-remove", "independence of graphs beyond per-graph allocation of every index", "injectivity of the identity hashes (H2 only refutes)"},
	})
	reg(&Property{
		ID:          "C02",
		Explanation: "Decides: S1 each lookup reads the one index whose bucket key is built from exactly its fixed components with the writer's UUID/PartialUUID choice, and deleters cover every bucket; S8 every channel lookup runs bounds -> filter -> sort -> page with a checker built from its own predicate; S9 the bucket post-filter (abstractly interpreted over query/stored kind) admits a stored predicate only if it has the query's kind and, for temporal ones, after the instants were compared; S10 the window comparisons are mirror images. Also: S9z newChecker takes the anchor of every temporal lookup predicate; S8x global-bounds/latest/paging details; S1x; H1x/H3x; M4/M5 wrapper keys. Not decided: equality with a scan for all histories. Round 3: PT1 a predicate is immutable exactly when it has no anchor; M3b.",
		Rules:       []func(*Ctx){ruleM4b, rulePT1, ruleM3b, ruleH1x, ruleH3x, ruleM4M5, ruleS9z, ruleS1, ruleS1x, ruleS8, ruleS8x, ruleS9, func(c *Ctx) { ruleS10(c, 1, "storage/memory") }},
		Level:       "reader/writer key agreement (S1), pipeline shape of all 11 lookups (S8), abstract interpretation of the kind/instant post-filter (S9), bound duality (S10)",
		Trusted:     []string{"predicate.TimeAnchor fails exactly for immutable predicates; newChecker records the anchor of a temporal query predicate (checked structurally)", trustedCore},
		NotDecided:  []string{"result equals a scan of the stored set for every history and argument (value-level)", "hash collisions between different identifiers sharing a bucket"},
	})
	reg(&Property{
		ID:          "C03",
		Explanation: "Decides necessary conditions only: P1 in tripleToRow every row store is followed on every path by the binding-consistency check whose false edge abandons the triple, and each extraction is built from the matching part of the triple; P2 the three tables naming a clause's bindings agree with the struct; P3 on each of the eight nil-patterns simpleFetch calls the driver method whose parameters are exactly the fixed components; S10 clause-level and row-supplied bounds are treated as mirror images; L3 row values looked up with comma-ok are not dereferenced when absent; S9 kind/instant matching at the driver. Also: P3b the unfeasible flag joins constants only; PO1 predicate/object extraction twins; TB1 the table's two column descriptions move together; S6b planner never writes the shared options; L3b cell pointer fields tested before use; S1/S1x index agreement. Not decided: soundness/completeness of the join. Round 3: P3c a fully specified clause is appended only after the running table was examined (fixed defect 9c8b916); TB2 the cross product has |left|x|right| rows; TB3 projections keep the rows; HK1. Round 6: P3d.",
		Rules: []func(*Ctx){ruleP3d, ruleS6c, ruleP3c, ruleTB3, ruleHK1, ruleTB2, ruleS1, ruleS1x, ruleP1, ruleP2, ruleP3, ruleP3b, ruleS6b, rulePO1, ruleTB1, func(c *Ctx) { ruleL3b(c, "bql/planner") }, func(c *Ctx) { ruleS10(c, 3, "bql/planner", "bql/semantic", "storage/memory") },
			func(c *Ctx) { ruleL3(c, "bql/...") }, ruleS9},
		Level:      "row-binding typestate (P1), table agreement (P2), dispatch by nil-pattern with edge facts (P3), bound duality (S10), comma-ok contradiction rule (L3)",
		Trusted:    []string{"pair table of S10 (lower/upper field names)", trustedCore},
		NotDecided: []string{"completeness and soundness of the join strategies, per-row specialisation and projection (relations between run-time tables)", "multiplicities"},
	})
	reg(&Property{
		ID:          "C04",
		Explanation: "Decides: P9 which driver mutations each statement kind can reach (lexical closures per Execute), the construct flag selecting AddTriples vs RemoveTriples, the fan-out over every target graph with the whole batch, the target list being the one the grammar puts after INTO/FROM, and Reify using one fresh blank node for its three triples; P5 the query (graph resolution) precedes the writer in CONSTRUCT/DECONSTRUCT; P8 no write error is dropped; L6 the bulk writer is joined and its channel closed on every path. Also: P9c every row of the binding table sends at least one triple; P9d the bulk writer keeps its first error; I1 Init returns each graph lookup error at once; P8b tested errors are propagated; PO1. Not decided: that the written set equals the stated set. Round 3: TB3 projections keep the rows (constant-only templates); HK2 the bindings checker validates before accepting; S7b. Round 6: OK1. Round 7: OK2 the kind that was tested is the kind used.",
		Rules:       []func(*Ctx){ruleOK2, ruleOK1, ruleS13, ruleIE1, ruleTB3, ruleHK2, ruleS7b, ruleP9d, ruleP9, ruleP9c, rulePO1, ruleI1, ruleP5, func(c *Ctx) { ruleP8(c, "bql/planner") }, func(c *Ctx) { ruleP8b(c, "bql/planner") }, func(c *Ctx) { ruleL6(c, 12, "bql/planner") }},
		Level:       "statement-kind -> effect table over the call graph with lexically bound closures (P9), dominance of stages (P5), error use (P8), join typestate (L6)",
		Trusted:     []string{"the statement-kind -> mutation table stated by the property (frozen in rule P9)", trustedCore},
		NotDecided:  []string{"the written set equals the stated set (template instantiation per row is value-level)", "untouched graphs beyond 'only the named lists are iterated'"},
	})
	reg(&Property{
		ID:          "C05",
		Explanation: "Decides that printer and parser of each text format use the same tables (T1): one time layout constant at every Format/Parse of anchors and bounds; %q paired with strconv.Unquote and the anchor delimiter; the literal separator; node delimiters; Triple.String's separators accepted by the compiled split patterns; WriteGraph's terminator vs the reader's split function; literal type names lexer = parser = printer (X5); the reader/writer counting discipline (IO1). Also: T2 conversion table, T2b the text between the quotes reaches the conversion unchanged. Not decided: round-trip equality for all values. Round 3: FS1 formats are constants; S3c no process-wide cache in the value packages; N1/N1b node.Parse builds validated nodes; T3 floats use 64 bits; H3z pooled bytes do not escape; T1 split patterns require the separator. Round 5: U1 no unsafe import in the engine. Round 7: PU1.",
		Rules:       []func(*Ctx){func(c *Ctx) { rulePU1(c, "triple/...", "io", "bql/...") }, func(c *Ctx) { ruleU1(c, "triple/...", "io", "storage/...", "bql/...") }, ruleN2, ruleT4, ruleN1b, ruleT3, ruleN1, func(c *Ctx) { ruleH3z(c, "triple/...", "io", "storage/...", "bql/...") }, func(c *Ctx) { ruleFS1(c, "triple/...", "io") }, func(c *Ctx) { ruleS3c(c, "triple/...", "io") }, ruleT2b, ruleT1, ruleT2, ruleIO1},
		Level:       "sibling table agreement between printers and parsers (T1), must-pass-through on the line reader (IO1)",
		Trusted:     []string{"fmt verbs, strconv.Unquote, regexp and bufio.ScanLines behave as documented", trustedCore},
		NotDecided:  []string{"round-trip equality for all values (ids containing delimiters, extreme numbers, zones, text containing the literal separator) — value-level", "the unescaped \"%v\" in Literal.String"},
	})
	reg(&Property{
		ID:          "C06",
		Explanation: "Decides: H1 every varint buffer can hold a 64-bit value; H2 the byte strings hashed by the identity methods show none of the certain non-injectivity patterns (adjacent variable segments, untagged bare-variable or equal-length alternatives, optional suffix after a variable segment, untagged delegation), Triple.UUID tiles its buffer with the full UUIDs of subject, predicate, object, no zone-dependent rendering is hashed, Triple.Equal is uuid.Equal of the two UUIDs; H3 no clock/random/pid/map-order dependency and pooled buffers are reset. H2 only refutes injectivity; it never proves it. Also: H1x varint hashed whole (array- or slice-backed), H3x pooled buffers released last. Round 3: H4 identity methods write nothing; PT1; H3z; S3c; H1x the hashed varint prefix is never capped.",
		Rules:       []func(*Ctx){ruleH4, rulePT1, func(c *Ctx) { ruleH3z(c, "triple/...", "io", "storage/...", "bql/...") }, func(c *Ctx) { ruleS3c(c, "triple/...", "io") }, ruleH1, ruleH1x, ruleH2, ruleH3, ruleH3x},
		Level:       "symbolic framing analysis of every hashed byte string over all paths of the seven identity methods (H2), buffer capacity (H1), determinism by reachability (H3)",
		Trusted:     []string{"SHA-1 collision freedom", "uuid.NewSHA1 hashes exactly the bytes given", trustedCore},
		NotDecided:  []string{"injectivity as such (suffix-code reasoning is not attempted)", "SHA-1 collisions"},
	})
	reg(&Property{
		ID:          "C07",
		Explanation: "Decides, for every path of the analysed functions and hence every schedule that can drive them: S3 every access to a lock-guarded field (frozen guard table: memoryStore.graphs, the seven memory indexes, the five memoizer caches, Table rows/bindings) holds the owner's lock in the required mode; S4 no method re-acquires its receiver's lock through a same-receiver call; S5 every Store/Graph method with a result channel closes it exactly once on every return, error returns included; S6 no lookup (or module callee it hands the pointer to) stores through its *LookupOptions; S7 AddTriples is one critical section; S2 create/get/drop test presence under the lock; L6 planner goroutines are joined. Also: S2y write-locked create/drop; H3y module-wide pooled-buffer release order. Not decided: linearizability. Round 3: S13 lock balance per object; S3b/S3c/S3d completeness of the guard table, no package-level state, encapsulation of guarded fields; H4; H3w/H3z pooled values do not escape. Round 6: LK1 no method locks its receiver twice. Round 7: S1y a graph is complete before it is published.",
		Rules:       []func(*Ctx){ruleS1y, func(c *Ctx) { ruleLK1(c, "bql/table", "storage/...") }, ruleS7c, ruleH4, ruleS3d, func(c *Ctx) { ruleH3w(c, "triple/...", "io", "storage/...", "bql/...") }, func(c *Ctx) { ruleH3z(c, "triple/...", "io", "storage/...", "bql/...") }, func(c *Ctx) { ruleS3c(c, "triple/...", "io", "bql/...", "storage/...") }, ruleS3b, ruleS13, ruleS3, ruleS4, ruleS5, ruleS6, ruleS7, ruleS2, ruleS2y, func(c *Ctx) { ruleH3y(c) }, func(c *Ctx) { ruleL6(c, 23, "bql/planner", "storage/...") }},
		Level:       "lockset (S3), lock re-entry (S4), close-exactly-once typestate on all returns (S5), options never written (S6), batch atomicity (S7)",
		Trusted:     []string{"guard table of rule S3 (field -> lock; a new map/slice field on a lock-owning type is reported until added)", "tableSequentialOnly exemptions (3 Table methods, reasons in source)", trustedCore},
		NotDecided:  []string{"linearizability of histories", "deadlocks that depend on the consumer of a result channel (lookups send while holding the read lock by design)", "panics", "data races on state outside the guard table"},
	})
	reg(&Property{
		ID:          "C08",
		Explanation: "Decides: X1/X1b every lexer loop and the state machine terminate; X2 exactly one terminal token then the channel is closed; X3 the cursor invariant; L7 evaluator recursion passes strictly shorter slices and the grammar consumes a token per recursion level; L1 every compiler-unproven index/slice on the statement path is discharged by a re-verified schema or reviewed entry; L2 no (nil, nil); L3 comma-ok values are not dereferenced when absent; L4 no process-killing call; P12 a negative LIMIT cannot reach make(); L6 every goroutine is joined or its producer drained; IO1 reader discipline. Also: X7 the scanner advances by the decoder's size; L2b, L3b, L6c, L6d (DESIGN §0.1). Not decided: absence of all panics, bounded running time. Round 3: D1 no defer in a loop. Round 6: OK1 object kinds handled together. LK1 no method locks its receiver twice. L6e several senders are not served by one receive.",
		Rules: []func(*Ctx){func(c *Ctx) { ruleL6e(c, "bql/planner", "io", "storage/...") }, func(c *Ctx) { ruleLK1(c, "bql/table", "storage/...") }, ruleOK1, ruleS13, func(c *Ctx) { ruleH3w(c, "triple/...", "io", "storage/...", "bql/...") }, func(c *Ctx) { ruleL3b(c, "bql/table") }, func(c *Ctx) { ruleD1(c, "triple/...", "io", "bql/...", "storage/...") }, ruleX7, ruleX1, ruleX1b, ruleX2, ruleX3,
			func(c *Ctx) { ruleL1(c, 80, "./triple/...", "./io/...", "./bql/...", "./storage/...") },
			func(c *Ctx) { ruleL2(c, 100, "triple/...", "io", "bql/...", "storage/...") },
			func(c *Ctx) { ruleL2b(c, 40, "triple/...", "io", "bql/...", "storage/...") },
			func(c *Ctx) { ruleL3(c, "bql/...") }, func(c *Ctx) { ruleL3b(c, "bql/planner") },
			func(c *Ctx) { ruleL4(c, "triple/...", "io", "bql/...", "storage/...") },
			func(c *Ctx) { ruleL6(c, 25, "triple/...", "io", "bql/...", "storage/...") },
			func(c *Ctx) { ruleL7(c, "bql/...", "triple/...") }, ruleP12, ruleG7, func(c *Ctx) { ruleL6c(c, "bql/planner", "io", "storage/...") }, ruleL6d},
		Level:      "progress analysis of lexer loops and abstract interpretation of the state machine over rune classes (X1, X1b), typestate (X2, X3, L6), the Go compiler's prove pass as first-stage bounds prover plus re-verified discharge table (L1), contradiction rules (L2, L3), reachability (L4), structural recursion measure (L7)",
		Trusted:    []string{"L1's reviewed entries (rules_bce.go l1Table, one reason and the guard facts each)", "L4's allow-list entry (rowLess, log.Fatalf)", "l2Reviewed (2 functions)", "the Go compiler's prove pass (a check it proves is in bounds)", trustedCore},
		NotDecided: []string{"absence of all panics (nil dereferences outside L2/L3, type assertions in accumulators, driver behaviour)", "bounded running time", "behaviour of third-party drivers"},
	})
	reg(&Property{
		ID:          "C09",
		Explanation: "Decides: S8 the documented order bounds -> filter -> sort -> page, identical in all eleven lookups and with the page test guarding every send; S10 the window is closed on both sides by symmetry of the comparisons; S11 every filter operation has all its handlers (constants = SupportedOperations = String = executeFilter = planner table) and the two kind filters are twins; S12 no equality on zone-dependent renderings; S6 LatestAnchor is implemented without writing the caller's options. Also: S9z, S8x, S8y (checker keeps the caller's options), S12b no == between time.Time values. Not decided: paging arithmetic, ties in latest. Round 3: S6b aliasing through a returned parameter; D1.",
		Rules: []func(*Ctx){ruleS6c, ruleS6b, func(c *Ctx) { ruleD1(c, "triple/...", "io", "bql/...", "storage/...") }, ruleS9z, ruleS8, ruleS8x, ruleS8y, func(c *Ctx) { ruleS12b(c, "storage/...", "bql/...", "triple/...") }, func(c *Ctx) { ruleS10(c, 1, "storage/memory") }, ruleS11,
			func(c *Ctx) { ruleS12(c, "storage/memory", "storage/memoization") }, ruleS6},
		Level:      "pipeline shape by def-use and dominance (S8), bound duality (S10), exhaustiveness tables and twin comparison (S11), direct rendering equality (S12)",
		Trusted:    []string{"docs/support_new_filter_function.md as the oracle for the order and the recipe", trustedCore},
		NotDecided: []string{"the paging arithmetic (MaxElements*Offset), the partition property of pages", "ties in latest", "which anchor is the greatest — value-level"},
	})
	reg(&Property{
		ID:          "C10",
		Explanation: "Decides (P4): (a) processClause reports 'unresolvable' (which truncates the table) only on the non-optional edge; (b) the plain cross product is only taken for non-optional clauses and LeftOptionalJoin takes it only with a non-empty right table; (c) when an optional clause matches nothing for a row the row is re-added with NULL cells; (d) every skippableError return in tripleToRow is on the non-optional edge. Also: P4e only reviewed row-preserving operations where the clause may be optional; P5c stage guards; PO1; TB1. Not decided: multiplicities of matches. Round 3: S6b; D1; P4c the unmatched row is merged with empty cells.",
		Rules:       []func(*Ctx){ruleP8c, ruleP2, ruleS6b, func(c *Ctx) { ruleD1(c, "triple/...", "io", "bql/...", "storage/...") }, ruleP4, ruleP4e, ruleP5c, rulePO1, ruleTB1},
		Level:       "edge-fact dominance on the four places where an optional clause could drop rows (P4)",
		Trusted:     []string{trustedCore},
		NotDecided:  []string{"multiplicities of matches", "several optional clauses in sequence beyond each satisfying P4 individually", "joinWithRange's merge logic (value-level)"},
	})
	reg(&Property{
		ID:          "C11",
		Explanation: "Decides: P7 validator and executor compare a GROUP BY entry with the same Projection fields; A1 every accumulator's Reset re-initialises what Accumulate writes and the group reducer resets all accumulators before each group; P8 the reduce step's error is propagated; L1 the empty pattern does not index row 0 and the other unproven indexes of the grouping path are discharged. Also: A2 group boundary and distinct keys are computed from whole cells; P7b validator/executor DNF agreement; P6. Not decided: group integrity on mixed-kind columns, accumulator arithmetic, distinct counting. Round 3: A3 count increments unconditionally; A4 one result slot per aggregate. Round 5: A5 one accumulator per projection; A6 no Reduce on an empty table; N3 no int64->float conversion.",
		Rules: []func(*Ctx){ruleA5, ruleA6, func(c *Ctx) { ruleN3(c, "triple/...", "bql/table", "bql/semantic", "bql/planner") }, func(c *Ctx) { ruleL3b(c, "bql/table") }, ruleA3, ruleA4, ruleA2, ruleP6, ruleP7, ruleP7b, ruleA1, func(c *Ctx) { ruleP8(c, "bql/planner") },
			func(c *Ctx) { ruleL1(c, 20, "./bql/table/...", "./bql/planner/...") }},
		Level:      "sibling agreement (P7), error use (P8), bounds discharge (L1)",
		Trusted:    []string{"L1's reviewed entries for bql/table and bql/planner", trustedCore},
		NotDecided: []string{"one row per distinct combination when kinds are mixed (rowLess treats different kinds as equal — value-level)", "count / count distinct / sum arithmetic"},
	})
	reg(&Property{
		ID:          "C12",
		Explanation: "Decides: P5 stage order pattern -> project/group -> order -> having -> limit, each once and dominating the next; P6 the limit is pushed into the driver only under empty GROUP BY, ORDER BY, HAVING and a single clause; P10 numeric/chronological order is not decided on renderings in the sort comparator; P12 the limit literal is an int64 and non-negative before it is stored and Table.Limit only ever receives it; P13 the comparator reads both rows under the first key, passes its direction and recurses on the remaining keys exactly on equality. Also: P12b ORDER BY de-duplication keeps whole original entries in order; P5c each stage works iff its clause is present. Not decided: that the sort yields a sorted permutation, DESC and multi-key handling. Round 3: P12c IsLimitSet returns the flag the LIMIT hook sets; T1 time layout. Round 5: P6c the limit is pushed into a lookup only if the consumer drops nothing; P13b stringLess branches on built-in comparisons of its arguments; N3 no int64->float conversion. Round 6: P5d.",
		Rules:       []func(*Ctx){ruleP5d, ruleP6c, ruleP13b, func(c *Ctx) { ruleN3(c, "triple/...", "bql/table", "bql/semantic", "bql/planner") }, ruleS6c, ruleP12c, ruleT1, ruleP5, ruleP6, func(c *Ctx) { ruleP10(c, "bql/table") }, ruleP12, ruleP12b, ruleP13, ruleP5c},
		Level:       "dominance of stages (P5), guard facts at the push-down sites (P6), taint from non-order-preserving renderings to string orderings (P10), guard facts on the limit store (P12)",
		Trusted:     []string{"sort.Sort sorts", trustedCore},
		NotDecided:  []string{"that the result is a sorted permutation (library)", "DESC and multi-key handling", "first n rows (value-level)", "row dropping inside the clause when the limit is pushed down (PID/extraction filters)"},
	})
	reg(&Property{
		ID:          "C13",
		Explanation: "Decides: P5 HAVING is applied after grouping and before limit; P10 the HAVING evaluators do not order numbers or times by their renderings; E1 each comparisonFor* evaluator tests the cell's kind-specific field before comparing; L7 the evaluator builder's recursion terminates; L2 evaluator constructors never return (nil, nil). Also: E2 NOT never returns its operand; P5c; P8/P8b evaluator errors propagate. Not decided: truth-functional correctness of the boolean evaluator and of the hand-written expression builder. Round 3: E3 evaluators are stateless; E4 formatCell compares the cell's own text; E1 the literal type test lies on every path. Round 6: P5d only the limit stage cuts rows off; E5 NewEvaluator accepts only a fully consumed expression.",
		Rules:       []func(*Ctx){ruleP5d, ruleE5, ruleT3, ruleE3, ruleE4, ruleE2, ruleP5, ruleP5c, func(c *Ctx) { ruleP8(c, "bql/semantic") }, func(c *Ctx) { ruleP8b(c, "bql/semantic") }, func(c *Ctx) { ruleP10(c, "bql/semantic") }, ruleE1, func(c *Ctx) { ruleL7(c, "bql/semantic") }, func(c *Ctx) { ruleL2(c, 40, "bql/semantic") }},
		Level:       "stage dominance (P5), rendering taint (P10), structural recursion (L7)",
		Trusted:     []string{trustedCore},
		NotDecided:  []string{"truth-functional correctness of booleanNode and of the expression builder (evaluating them is symbolic execution, a different family)", "that comparisons with a constant of another kind never hold"},
	})
	reg(&Property{
		ID:          "C14",
		Explanation: "Decides one clause only: P11 no map iteration order reaches an ordered output — every range over a map in bql/… and storage/… whose body appends, sends, writes or leaves with an element is followed by a sort of what it built or is in the reviewed table with its reason; in particular the ORDER BY key list is no longer rebuilt from a map. Also: HK1 hooks consume the modifier token they remember (no carry-over to the next clause); P3b the last FROM graph does not decide feasibility alone; S6b; P12b; S1/S1x index agreement (answers do not depend on which index a clause order selects); M4/M5. Not decided: invariance under renaming, clause permutation, partitioning, chanSize/bulkSize/GOMAXPROCS, monotonicity. Round 3: P3c; TB2; D1; S3c; H1x. Round 6: P3d the verdict of a ground clause reaches the caller.",
		Rules:       []func(*Ctx){ruleP3d, func(c *Ctx) { ruleR1(c, "triple/...", "io", "bql/...", "storage/...") }, ruleP3c, ruleTB2, ruleH1x, func(c *Ctx) { ruleD1(c, "triple/...", "io", "bql/...", "storage/...") }, func(c *Ctx) { ruleS3c(c, "triple/...", "io", "bql/...", "storage/...") }, ruleHK1, ruleS1, ruleS1x, ruleM4M5, func(c *Ctx) { ruleP11(c, "bql/...", "storage/...") }, ruleP3b, ruleS6b, ruleP12b},
		Level:       "enumeration of order-sensitive map ranges with a reviewed table (P11)",
		Trusted:     []string{"p11Reviewed (8 sites, one reason each)", trustedCore},
		NotDecided:  []string{"invariance under binding renaming, clause order, partitioning over graphs, channel/bulk sizes, GOMAXPROCS", "monotonicity under added triples — all relations between runs"},
	})
	reg(&Property{
		ID:          "C15",
		Explanation: "Decides: L1 every compiler-unproven index/slice in node/predicate/literal/triple/io is discharged by a guard re-verified on the current code; L2 no parser or builder returns (nil, nil), ParseObject included; IO1 the reader adds only parsed triples, counts only added ones, returns errors with the count so far and reports success only after consulting the scanner's error; T1 printer/parser table agreement. Also: T2/T2b conversion table and unchanged value text; L2b nil results only with a known non-nil error. Not decided: accepted text re-parses to an equal value. Round 3: FS1; N1/N1b; T3. Round 7: PU1 the literal builder passed in is used.",
		Rules: []func(*Ctx){func(c *Ctx) { rulePU1(c, "triple/...", "io", "bql/...") }, ruleN2, ruleT4, ruleN1b, ruleT3, ruleN1, func(c *Ctx) { ruleFS1(c, "triple/...", "io") }, ruleT2b, func(c *Ctx) { ruleL1(c, 20, "./triple/...", "./io/...") },
			func(c *Ctx) { ruleL2(c, 20, "triple/...", "io") }, func(c *Ctx) { ruleL2b(c, 8, "triple/...", "io") }, ruleIO1, ruleT1, ruleT2},
		Level:      "compiler prove pass + re-verified discharge table (L1), (nil,nil) contradiction rule (L2), must-pass-through on the reader (IO1)",
		Trusted:    []string{"L1's reviewed entries for triple/…", "strings.Index / regexp.FindIndex contracts", trustedCore},
		NotDecided: []string{"accepted text prints to text that parses to an equal value (value-level)", "termination of the standard library parsers"},
	})
	reg(&Property{
		ID:          "C16",
		Explanation: "Decides: X1 every unbounded lexer loop consumes a rune per cycle and has no feasible cycle at end of input; X1b every state-graph cycle passes through lexToken, which hands over without consuming only under a rune-class fact, after which at least one rune is consumed; X2 exactly one terminal token, nothing after it, channel closed once by run; X3 cursor writers and backup-after-next typestate, hence token texts are ordered disjoint substrings and emit cannot panic; X4 keywords and literal type names are matched case-insensitively; X5 TokenType.String, grammar tokens and literal type names agree. Also: X6 no blind skip; X7 position moves by the decoder's size only; X8 the predicate/literal dispatch cannot take the opening quote for a closing one. Not decided: whitespace invariance, printed form is one token. Round 3: X9 only lexToken consults the previous token. Round 5: MK1 the token channel capacity is never negative; X3 also requires the stored token text to be the input slice itself.",
		Rules:       []func(*Ctx){ruleMK1, func(c *Ctx) { ruleH3w(c, "triple/...", "io", "storage/...", "bql/...") }, ruleX9, ruleX7, ruleX8, ruleX1, ruleX1b, ruleX2, ruleX3, ruleX4, ruleX5, ruleX6},
		Level:       "progress/ranking argument per loop and for the state machine by abstract interpretation over rune classes (X1, X1b), typestate (X2, X3), table agreement (X4, X5)",
		Trusted:     []string{"utf8.DecodeRuneInString returns width >= 1 on non-empty input", trustedCore},
		NotDecided:  []string{"whitespace invariance of token kinds and texts", "the printed form of a value is emitted as exactly one token (value-level)"},
	})
	reg(&Property{
		ID:          "C17",
		Explanation: "Decides, completely over the finite grammar table constant-evaluated from grammar.BQL: G1 pairwise distinct first tokens, token-first, single last empty alternative, defined/reachable/productive rules; G2 a shortest witness sentence per alternative accepted by the checker's model of the predictive parser with exactly that alternative firing, and structural conformance of Parser.consume/expect to the model; G3 the semantic grammar is the plain grammar plus hooks; X5 every grammar token can be produced by the lexer. The real parser is not executed. Round 3: X9.",
		Rules:       []func(*Ctx){ruleX9, ruleG1, ruleG2, ruleG3, ruleX5},
		Level:       "exhaustive check of the LL(1) conditions over the finite table (G1), witness construction against a model parser plus structural conformance of the real parser (G2), shape preservation (G3)",
		Trusted:     []string{"the constant evaluator covers the literal subset the grammar is written in (anything else is reported undecided, never passed)", trustedCore},
		NotDecided:  []string{"behaviour of the real parser beyond its structural conformance to the model (it is not run)"},
	})
	reg(&Property{
		ID:          "C18",
		Explanation: "Decides: G4 Parser.Parse reports success only on the true edge of CanAccept(ItemEOF); G6 hook results can only reject (returned hook discarded, error only tested against nil, error edge returns false); G5 complete inventory of state that survives a parse — captured variables assigned by hook closures, package-level variables written outside init, parser/grammar fields written while parsing — each reviewed or a violation; G7 the look-ahead window keeps its size; G2's parser conformance. Also: HK1 a remembered modifier token is consumed on every successful path (state does not leak to the next clause or statement). Not decided: that the extracted meaning is the intended one. Round 3: HK2; G5 also inventories captured maps/slices edited in place; S3c.",
		Rules: []func(*Ctx){ruleIE1, ruleHK2, func(c *Ctx) { ruleS3c(c, "bql/...") }, ruleHK1, ruleG1, ruleG4, ruleG5, ruleG6, ruleG7, func(c *Ctx) {
			c.Rule("G2", "Parser.consume/expect conform structurally to the predictive-parser model", 2)
			c.parserConformance()
		}},
		Level:      "must-pass-through (G4), def-use discipline of hook results (G6), state inventory (G5), window typestate (G7)",
		Trusted:    []string{"reviewedCells (1 entry)", trustedCore},
		NotDecided: []string{"that the meaning extracted from an accepted statement is the intended one", "acceptance of every derivable statement (follows from C17's model only)"},
	})
	reg(&Property{
		ID:          "C19",
		Explanation: "Decides: M1 the cache key covers every field of LookupOptions and of the nested filter options and includes the options' identity; M2 handles of one graph share cache state; M3 a reset follows the forwarded write; M4 only successful, complete reads are cached; M5 op name = method = forwarded method, pairwise distinct, full UUIDs of all components, same map and key for load and store, caller's arguments forwarded; S3/S5 lock and channel discipline of the wrapper; L6 its goroutines are joined. Also: M1x every option field is written into the key rendering; M3b unconditional resets; M4b every delivered element is recorded before caching. Not decided: equality of answers over histories and interleavings. Round 3: S13; H3w a pooled slice is never cached.",
		Rules:       []func(*Ctx){func(c *Ctx) { ruleH3w(c, "triple/...", "io", "storage/...", "bql/...") }, ruleS13, ruleM1, ruleM1x, ruleM2, ruleM3, ruleM3b, ruleM4M5, ruleM4b, ruleS3, ruleS5, func(c *Ctx) { ruleL6(c, 11, "storage/memoization") }},
		Level:       "field coverage of the key (M1), provenance of handed-out memoizers (M2), post-dominance of the reset (M3), edge facts on cache stores (M4), key/op/forwarding agreement (M5)",
		Trusted:     []string{"the wrapped driver is the specification", trustedCore},
		NotDecided:  []string{"equality of answers with the wrapped store over all histories", "interleavings (M3 is necessary, not sufficient)"},
	})
	reg(&Property{
		ID:          "C20",
		Explanation: "Decides: P8 no error of a driver call or module function is dropped on an Execute path, in the memoizer or the io package; L2 no success return that discards a received error (nil table with nil error); L6 failures neither leak goroutines nor leave a ranged-over channel open; M4 partial reads are not cached; IO1 reader errors. Also: P9d first write error kept; I1; P8b; L6c consumers drain; L6d addTriples drains on every exit. Not decided: bounded time under arbitrary fault sequences; what a driver may do after returning an error. Round 3: S13. Round 5: P8f success after a fetch only past the nil test of its error; P8e an error produced in a loop is looked at inside the loop. Round 6: L6e.",
		Rules: []func(*Ctx){func(c *Ctx) { ruleL6e(c, "bql/planner", "io", "storage/...") }, ruleP8f, func(c *Ctx) { ruleP8e(c, "bql/planner", "io", "storage/memoization") }, ruleP8c, ruleP8d, ruleS13, ruleP9d, ruleI1, func(c *Ctx) { ruleP8(c, "bql/planner", "storage/memoization", "io") }, func(c *Ctx) { ruleP8b(c, "bql/planner", "storage/memoization", "io") }, func(c *Ctx) { ruleL6c(c, "bql/planner", "io", "storage/...") }, ruleL6d,
			func(c *Ctx) { ruleL2(c, 18, "bql/planner", "io") },
			func(c *Ctx) { ruleL6(c, 25, "io", "bql/...", "storage/...") }, ruleM4M5, ruleIO1},
		Level:      "error def-use (P8), (nil,nil) rule (L2), join typestate on error paths (L6), success-only caching (M4)",
		Trusted:    []string{"p8Allowed (1 entry)", "drivers close their result channel before returning (rule S5 checks the two in-repo drivers)", trustedCore},
		NotDecided: []string{"bounded time under arbitrary fault sequences", "what a third-party driver does after returning an error (e.g. not closing its channel)"},
	})
}
