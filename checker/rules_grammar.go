package main

import (
	"fmt"
	"go/ast"
	"go/constant"
	"go/token"
	"go/types"
	"sort"
	"strings"

	"golang.org/x/tools/go/ssa"
)

// gElem is one element of an alternative: a token type or a symbol.
type gElem struct {
	isSym bool
	sym   string
	tok   int64
}

type gAlt struct {
	elems []gElem
	pos   token.Pos
}

type gTable struct {
	rules    map[string][]gAlt
	order    []string
	rulePos  map[string]token.Pos
	tokName  map[int64]string
	builders map[string]bool // functions whose literals make up the table
	undec    []string
}

func (g *gTable) elemString(e gElem) string {
	if e.isSym {
		return e.sym
	}
	if n, ok := g.tokName[e.tok]; ok {
		return n
	}
	return fmt.Sprintf("tok%d", e.tok)
}

// grammarTable evaluates grammar.BQL() — a composite literal of calls to zero-argument
// functions returning []*Clause literals — into a table. Anything outside that subset is recorded as undecided.
func (c *Ctx) grammarTable() *gTable {
	if t, ok := c.cacheGet("gtable"); ok {
		return t.(*gTable)
	}
	g := &gTable{rules: map[string][]gAlt{}, rulePos: map[string]token.Pos{}, tokName: map[int64]string{}, builders: map[string]bool{}}
	c.cachePut("gtable", g)
	p := c.pkg("bql/grammar")
	lp := c.pkg("bql/lexer")
	if p == nil || lp == nil {
		g.undec = append(g.undec, "package bql/grammar or bql/lexer not loaded")
		return g
	}
	tt := c.namedType("bql/lexer", "TokenType")
	for _, n := range lp.Types.Scope().Names() {
		if k, ok := lp.Types.Scope().Lookup(n).(*types.Const); ok && tt != nil && types.Identical(k.Type(), tt) {
			if v, ok := constant.Int64Val(k.Val()); ok {
				g.tokName[v] = n
			}
		}
	}
	decls := map[string]*ast.FuncDecl{}
	for _, f := range p.Syntax {
		for _, d := range f.Decls {
			if fd, ok := d.(*ast.FuncDecl); ok && fd.Recv == nil {
				decls[fd.Name.Name] = fd
			}
		}
	}
	info := p.TypesInfo
	bql := decls["BQL"]
	if bql == nil || bql.Body == nil || len(bql.Body.List) != 1 {
		g.undec = append(g.undec, "grammar.BQL is not a single return statement")
		return g
	}
	ret, ok := bql.Body.List[0].(*ast.ReturnStmt)
	if !ok || len(ret.Results) != 1 {
		g.undec = append(g.undec, "grammar.BQL does not return one expression")
		return g
	}
	e := ret.Results[0]
	if u, ok := e.(*ast.UnaryExpr); ok && u.Op == token.AND {
		e = u.X
	}
	cl, ok := e.(*ast.CompositeLit)
	if !ok {
		g.undec = append(g.undec, "grammar.BQL does not return a composite literal")
		return g
	}
	g.builders["BQL"] = true
	// constArg evaluates a builder argument: a constant expression, or a parameter bound by the caller.
	constArg := func(e ast.Expr, env map[types.Object]constant.Value) constant.Value {
		if tv, ok := info.Types[e]; ok && tv.Value != nil {
			return tv.Value
		}
		e = ast.Unparen(e)
		if call, ok := e.(*ast.CallExpr); ok && len(call.Args) == 1 {
			if tv, ok := info.Types[call.Fun]; ok && tv.IsType() { // conversion of a bound parameter
				e = ast.Unparen(call.Args[0])
			}
		}
		if id, ok := e.(*ast.Ident); ok && env != nil {
			if v, ok := env[info.Uses[id]]; ok {
				return v
			}
		}
		return nil
	}
	var evalClauses func(fd *ast.FuncDecl, env map[types.Object]constant.Value, depth int) ([]gAlt, bool)
	// evalCall evaluates a call of a same-package clause builder, binding constant arguments to its parameters.
	evalCall := func(call *ast.CallExpr, env map[types.Object]constant.Value, depth int) ([]gAlt, bool) {
		id, ok := call.Fun.(*ast.Ident)
		if !ok || depth > 4 {
			return nil, false
		}
		fd := decls[id.Name]
		if fd == nil || info.Uses[id] == nil || info.Uses[id].Pkg() != p.Types {
			return nil, false
		}
		var params []types.Object
		for _, f := range fd.Type.Params.List {
			for _, n := range f.Names {
				params = append(params, info.Defs[n])
			}
			if len(f.Names) == 0 {
				return nil, false
			}
		}
		if len(params) != len(call.Args) || call.Ellipsis.IsValid() {
			return nil, false
		}
		inner := map[types.Object]constant.Value{}
		for i, a := range call.Args {
			v := constArg(a, env)
			if v == nil {
				return nil, false
			}
			inner[params[i]] = v
		}
		alts, ok := evalClauses(fd, inner, depth+1)
		if ok {
			g.builders[id.Name] = true
		}
		return alts, ok
	}
	evalClauses = func(fd *ast.FuncDecl, env map[types.Object]constant.Value, depth int) ([]gAlt, bool) {
		if fd.Body == nil || len(fd.Body.List) != 1 {
			return nil, false
		}
		r, ok := fd.Body.List[0].(*ast.ReturnStmt)
		if !ok || len(r.Results) != 1 {
			return nil, false
		}
		if call, ok := ast.Unparen(r.Results[0]).(*ast.CallExpr); ok {
			return evalCall(call, env, depth)
		}
		lit, ok := r.Results[0].(*ast.CompositeLit)
		if !ok {
			return nil, false
		}
		var alts []gAlt
		for _, ce := range lit.Elts {
			cls, ok := ce.(*ast.CompositeLit)
			if !ok {
				if u, isU := ce.(*ast.UnaryExpr); isU && u.Op == token.AND {
					cls, ok = u.X.(*ast.CompositeLit)
				}
				if !ok {
					return nil, false
				}
			}
			alt := gAlt{pos: cls.Pos()}
			for _, kv := range cls.Elts {
				kve, ok := kv.(*ast.KeyValueExpr)
				if !ok {
					return nil, false
				}
				k, _ := kve.Key.(*ast.Ident)
				if k == nil {
					return nil, false
				}
				if k.Name != "Elements" {
					continue // hook fields set inline do not change the shape
				}
				el, ok := kve.Value.(*ast.CompositeLit)
				if !ok {
					return nil, false
				}
				for _, x := range el.Elts {
					call, ok := x.(*ast.CallExpr)
					if !ok || len(call.Args) != 1 {
						return nil, false
					}
					fn, _ := call.Fun.(*ast.Ident)
					v := constArg(call.Args[0], env)
					if fn == nil || v == nil {
						return nil, false
					}
					switch fn.Name {
					case "NewTokenType":
						tk, exact := constant.Int64Val(constant.ToInt(v))
						if !exact {
							return nil, false
						}
						alt.elems = append(alt.elems, gElem{tok: tk})
					case "NewSymbol":
						if v.Kind() != constant.String {
							return nil, false
						}
						alt.elems = append(alt.elems, gElem{isSym: true, sym: constant.StringVal(v)})
					default:
						return nil, false
					}
				}
			}
			alts = append(alts, alt)
		}
		return alts, true
	}
	for _, el := range cl.Elts {
		kv, ok := el.(*ast.KeyValueExpr)
		if !ok {
			g.undec = append(g.undec, "entry of grammar.BQL is not key: value")
			continue
		}
		tv, ok := info.Types[kv.Key]
		if !ok || tv.Value == nil || tv.Value.Kind() != constant.String {
			g.undec = append(g.undec, "rule name is not a string constant")
			continue
		}
		name := constant.StringVal(tv.Value)
		call, ok := kv.Value.(*ast.CallExpr)
		fn, _ := func() (*ast.Ident, bool) {
			if !ok {
				return nil, false
			}
			id, ok := call.Fun.(*ast.Ident)
			return id, ok
		}()
		if fn == nil || decls[fn.Name] == nil {
			g.undec = append(g.undec, "rule "+name+" is not built by a function of the package")
			continue
		}
		alts, ok := evalCall(call, nil, 0)
		if !ok {
			g.undec = append(g.undec, "rule "+name+": "+fn.Name+" is not a single return of a []*Clause literal of NewTokenType/NewSymbol calls (or of another such builder with constant arguments)")
			continue
		}
		if _, dup := g.rules[name]; dup {
			g.undec = append(g.undec, "rule "+name+" defined twice")
		}
		g.builders[fn.Name] = true
		g.rules[name] = alts
		g.rulePos[name] = kv.Pos()
		g.order = append(g.order, name)
	}
	sort.Strings(g.order)
	return g
}

func (c *Ctx) cacheGet(k string) (any, bool) {
	if c.misc == nil {
		c.misc = map[string]any{}
	}
	v, ok := c.misc[k]
	return v, ok
}
func (c *Ctx) cachePut(k string, v any) {
	if c.misc == nil {
		c.misc = map[string]any{}
	}
	c.misc[k] = v
}

func ruleG1(c *Ctx) {
	c.Rule("G1", "the BQL grammar table (constant-evaluated from grammar.BQL) is LL(1) as the parser needs it: per rule, alternatives start with pairwise different tokens, every non-empty alternative starts with a token, at most one empty alternative and it is last; every referenced symbol is defined, reachable from START and productive", 300)
	g := c.grammarTable()
	for _, u := range g.undec {
		c.undecided("grammar table: "+u, token.NoPos, "%s", u)
	}
	if len(g.rules) == 0 {
		c.undecided("grammar table", token.NoPos, "no rule could be evaluated")
		return
	}
	c.analysed("grammar.BQL")
	// productive: least fixpoint
	prod := map[string]bool{}
	for changed := true; changed; {
		changed = false
		for _, r := range g.order {
			if prod[r] {
				continue
			}
			for _, a := range g.rules[r] {
				ok := true
				for _, e := range a.elems {
					if e.isSym && !prod[e.sym] {
						ok = false
					}
				}
				if ok {
					prod[r] = true
					changed = true
					break
				}
			}
		}
	}
	reach := map[string]bool{}
	var dfs func(string)
	dfs = func(r string) {
		if reach[r] {
			return
		}
		reach[r] = true
		for _, a := range g.rules[r] {
			for _, e := range a.elems {
				if e.isSym {
					dfs(e.sym)
				}
			}
		}
	}
	if _, ok := g.rules["START"]; !ok {
		c.bad("rule START", token.NoPos, "the grammar has no START rule")
	}
	dfs("START")
	for _, r := range g.order {
		alts := g.rules[r]
		pos := g.rulePos[r]
		// pairwise distinct first tokens
		firsts := map[int64]int{}
		clash := ""
		for i, a := range alts {
			if len(a.elems) == 0 || a.elems[0].isSym {
				continue
			}
			if j, ok := firsts[a.elems[0].tok]; ok {
				clash = fmt.Sprintf("alternatives %d and %d both start with %s: the parser always takes the first, alternative %d is dead", j, i, g.elemString(a.elems[0]), i)
			}
			firsts[a.elems[0].tok] = i
		}
		c.check(clash == "", "rule "+r+" first tokens", pos, fmt.Sprintf("%d alternatives, pairwise different first tokens", len(alts)), clash)
		for i, a := range alts {
			key := fmt.Sprintf("rule %s alternative %d", r, i)
			switch {
			case len(a.elems) == 0 && i != len(alts)-1:
				c.bad(key+" empty", a.pos, "the empty alternative is not the last one tried: every later alternative of %s is dead", r)
			case len(a.elems) == 0:
				c.ok(key+" empty", a.pos, "single empty alternative, tried last")
			case a.elems[0].isSym:
				c.bad(key+" start", a.pos, "alternative starts with symbol %s, not a token: the parser rejects the grammar as not left factored", a.elems[0].sym)
			default:
				c.ok(key+" start", a.pos, "starts with token %s", g.elemString(a.elems[0]))
			}
			for _, e := range a.elems {
				if e.isSym {
					if _, ok := g.rules[e.sym]; !ok {
						c.bad(key+" symbol "+e.sym, a.pos, "references symbol %s, which has no rule: the alternative can never be completed", e.sym)
					}
				}
			}
		}
		nEmpty := 0
		for _, a := range alts {
			if len(a.elems) == 0 {
				nEmpty++
			}
		}
		if nEmpty > 1 {
			c.bad("rule "+r+" empty alternatives", pos, "%d empty alternatives", nEmpty)
		}
		if len(alts) == 0 {
			c.bad("rule "+r+" alternatives", pos, "rule has no alternative")
		}
		c.check(reach[r], "rule "+r+" reachable", pos, "reachable from START", "rule "+r+" cannot be reached from START: its alternatives are dead")
		c.check(prod[r], "rule "+r+" productive", pos, "derives a finite token sequence", "rule "+r+" derives no finite statement (every alternative recurses)")
	}
}

// ---- G2 witnesses -------------------------------------------------------------------

// minSentences computes a shortest token sequence per rule and per alternative.
func (g *gTable) minSentences() (map[string][]int64, map[string][][]int64) {
	best := map[string][]int64{}
	have := map[string]bool{}
	altBest := map[string][][]int64{}
	for changed := true; changed; {
		changed = false
		for _, r := range g.order {
			for _, a := range g.rules[r] {
				var s []int64
				ok := true
				for _, e := range a.elems {
					if e.isSym {
						if !have[e.sym] {
							ok = false
							break
						}
						s = append(s, best[e.sym]...)
					} else {
						s = append(s, e.tok)
					}
				}
				if ok && (!have[r] || len(s) < len(best[r])) {
					best[r], have[r] = s, true
					changed = true
				}
			}
		}
	}
	for _, r := range g.order {
		for _, a := range g.rules[r] {
			var s []int64
			ok := true
			for _, e := range a.elems {
				if e.isSym {
					if !have[e.sym] {
						ok = false
						break
					}
					s = append(s, best[e.sym]...)
				} else {
					s = append(s, e.tok)
				}
			}
			if !ok {
				s = nil
			}
			altBest[r] = append(altBest[r], s)
		}
	}
	return best, altBest
}

// modelParse runs the checker's model of Parser.consume/expect over a token sequence and records which alternatives fire.
func (g *gTable) modelParse(toks []int64, eof int64) (bool, map[string]bool) {
	fired := map[string]bool{}
	pos := 0
	cur := func() int64 {
		if pos < len(toks) {
			return toks[pos]
		}
		return eof
	}
	steps := 0
	var consume func(sym string) bool
	consume = func(sym string) bool {
		steps++
		if steps > 100000 {
			return false
		}
		for i, a := range g.rules[sym] {
			if len(a.elems) == 0 {
				fired[fmt.Sprintf("%s/%d", sym, i)] = true
				return true
			}
			if a.elems[0].isSym {
				return false
			}
			if cur() == a.elems[0].tok {
				fired[fmt.Sprintf("%s/%d", sym, i)] = true
				for _, e := range a.elems {
					if e.isSym {
						if !consume(e.sym) {
							return false
						}
					} else {
						if cur() != e.tok {
							return false
						}
						pos++
					}
				}
				return true
			}
		}
		return false
	}
	ok := consume("START")
	return ok && pos == len(toks), fired
}

func ruleG2(c *Ctx) {
	c.Rule("G2", "every alternative of every rule is live: a shortest sentence containing it, derived from the table, is accepted by the checker's model of the predictive parser with exactly that alternative firing; Parser.consume/expect conform structurally to the model", 170)
	g := c.grammarTable()
	if len(g.rules) == 0 || len(g.undec) > 0 {
		c.undecided("grammar table", token.NoPos, "table not fully evaluated (see G1)")
		return
	}
	best, altBest := g.minSentences()
	eof := int64(-1)
	for v, n := range g.tokName {
		if n == "ItemEOF" {
			eof = v
		}
	}
	// occurrences of each symbol
	type occ struct {
		rule string
		alt  int
		idx  int
	}
	occs := map[string][]occ{}
	for _, r := range g.order {
		for ai, a := range g.rules[r] {
			for ei, e := range a.elems {
				if e.isSym {
					occs[e.sym] = append(occs[e.sym], occ{r, ai, ei})
				}
			}
		}
	}
	// contexts(rule) = list of (prefix, suffix) token sequences embedding the rule in a sentence from START (a few, shortest first)
	type ctxT struct{ pre, suf []int64 }
	memo := map[string][]ctxT{}
	var contexts func(r string, depth int, stack map[string]bool) []ctxT
	contexts = func(r string, depth int, stack map[string]bool) []ctxT {
		if r == "START" {
			return []ctxT{{}}
		}
		if v, ok := memo[r]; ok {
			return v
		}
		if depth > 12 || stack[r] {
			return nil
		}
		stack[r] = true
		defer delete(stack, r)
		var out []ctxT
		for _, o := range occs[r] {
			a := g.rules[o.rule][o.alt]
			var pre, suf []int64
			ok := true
			for i, e := range a.elems {
				if i == o.idx {
					continue
				}
				var s []int64
				if e.isSym {
					b, have := best[e.sym]
					if !have {
						ok = false
						break
					}
					s = b
				} else {
					s = []int64{e.tok}
				}
				if i < o.idx {
					pre = append(pre, s...)
				} else {
					suf = append(suf, s...)
				}
			}
			if !ok {
				continue
			}
			for _, pc := range contexts(o.rule, depth+1, stack) {
				out = append(out, ctxT{append(append([]int64{}, pc.pre...), pre...), append(append([]int64{}, suf...), pc.suf...)})
				if len(out) >= 24 {
					break
				}
			}
		}
		sort.SliceStable(out, func(i, j int) bool {
			return len(out[i].pre)+len(out[i].suf) < len(out[j].pre)+len(out[j].suf)
		})
		if len(out) > 12 {
			out = out[:12]
		}
		if len(stack) == 1 {
			memo[r] = out
		}
		return out
	}
	render := func(ts []int64) string {
		var p []string
		for _, t := range ts {
			p = append(p, strings.TrimPrefix(g.tokName[t], "Item"))
		}
		return strings.Join(p, " ")
	}
	for _, r := range g.order {
		for ai := range g.rules[r] {
			key := fmt.Sprintf("rule %s alternative %d witness", r, ai)
			body := altBest[r][ai]
			if body == nil && len(g.rules[r][ai].elems) > 0 {
				c.bad(key, g.rules[r][ai].pos, "the alternative derives no finite token sequence")
				continue
			}
			ctxs := contexts(r, 0, map[string]bool{})
			found := ""
			tried := 0
			for _, cx := range ctxs {
				sent := append(append(append([]int64{}, cx.pre...), body...), cx.suf...)
				tried++
				ok, fired := g.modelParse(sent, eof)
				if ok && fired[fmt.Sprintf("%s/%d", r, ai)] {
					found = render(sent)
					break
				}
			}
			if found != "" {
				c.ok(key, g.rules[r][ai].pos, "model parser accepts %q taking this alternative (context %d)", found, tried)
			} else {
				c.bad(key, g.rules[r][ai].pos, "no witness sentence found in %d contexts: in every one the model parser rejects the sentence or takes another alternative (first/follow conflict or unreachable)", tried)
			}
		}
	}
	c.parserConformance()
}

// parserConformance checks that Parser.consume and Parser.expect have the shape of the model used by G2.
func (c *Ctx) parserConformance() {
	cons := c.mustFunc("bql/grammar", "Parser.consume")
	exp := c.mustFunc("bql/grammar", "Parser.expect")
	if cons == nil || exp == nil {
		return
	}
	fi := c.fi(cons)
	var probs []string
	// (1) ranges over grammar[s] in order
	var lookups, canAccepts, expects []ssa.Instruction
	allInstrs(cons, func(in ssa.Instruction) {
		switch x := in.(type) {
		case *ssa.Lookup:
			if _, ok := x.X.Type().Underlying().(*types.Map); ok && isValueOfParam(x.Index, cons.Params[3]) {
				lookups = append(lookups, in)
			}
		case *ssa.Call:
			if f := x.Call.StaticCallee(); f != nil {
				switch f.Name() {
				case "CanAccept":
					canAccepts = append(canAccepts, in)
				case "expect":
					expects = append(expects, in)
				}
			}
		}
	})
	if len(lookups) != 1 {
		probs = append(probs, fmt.Sprintf("%d lookups of grammar[s]", len(lookups)))
	}
	if len(canAccepts) != 1 || len(expects) != 1 {
		probs = append(probs, fmt.Sprintf("%d CanAccept / %d expect calls, expected 1/1", len(canAccepts), len(expects)))
	} else {
		ca := canAccepts[0].(*ssa.Call)
		// argument is Token() of Elements[0]
		t := c.term(ca.Call.Args[1])
		if !strings.Contains(t, "Token(") || !strings.Contains(t, ".Elements[0]") {
			probs = append(probs, "CanAccept is not asked about the first element's token: "+t)
		}
		guarded := false
		for _, ft := range fi.factsAt(expects[0].Block()) {
			if ft.Cond == ssa.Value(ca) && ft.Truth {
				guarded = true
			}
		}
		if !guarded {
			probs = append(probs, "expect is not called on the true edge of CanAccept")
		}
		ec := expects[0].(*ssa.Call)
		if !strings.Contains(t, strings.TrimSuffix(strings.TrimPrefix(c.term(ec.Call.Args[4]), "*"), "")) && !strings.Contains(c.term(ca.Call.Args[1]), c.term(ec.Call.Args[4])) {
			probs = append(probs, "expect is called with a clause other than the one whose first token was tested")
		}
	}
	// (2) empty clause => return true, nil
	emptyRet := false
	for _, r := range c.returnsOf(cons) {
		rv := resultValues(r)
		if k, ok := rv[0].(*ssa.Const); ok && k.Value != nil && constant.BoolVal(k.Value) && isNilConst(rv[1]) {
			for _, ft := range fi.factsAt(r.Block()) {
				if bo, ok := ft.Cond.(*ssa.BinOp); ok && bo.Op == token.EQL && ft.Truth {
					if strings.Contains(c.term(bo.X), "len(") && strings.Contains(c.term(bo.X), ".Elements") {
						emptyRet = true
					}
				}
			}
		}
	}
	if !emptyRet {
		probs = append(probs, "no `return true, nil` under len(clause.Elements) == 0")
	}
	// (3) the loop visits clauses in slice order: a range over the looked-up slice
	hasRange := false
	allInstrs(cons, func(in ssa.Instruction) {
		if ia, ok := in.(*ssa.IndexAddr); ok {
			if len(lookups) == 1 && ia.X == lookups[0].(ssa.Value) && isRangeIndex(ia.Index) {
				hasRange = true
			}
		}
	})
	if !hasRange {
		probs = append(probs, "the clauses of grammar[s] are not indexed in order")
	}
	// (4) failure falls through to an error
	for _, r := range c.returnsOf(cons) {
		rv := resultValues(r)
		if k, ok := rv[0].(*ssa.Const); ok && k.Value != nil && !constant.BoolVal(k.Value) && isNilConst(rv[1]) {
			probs = append(probs, "consume can return (false, nil)")
		}
	}
	c.check(len(probs) == 0, "(*grammar.Parser).consume conforms to the model", cons.Pos(),
		"one ordered pass over grammar[s]; empty clause accepts; CanAccept(first token) guards expect on the same clause; failure is an error",
		strings.Join(probs, "; "))
	// expect: tokens consumed with llk.Consume(elem.Token()), symbols with p.consume(elem.Symbol()); failures return false
	var p2 []string
	nCons, nSym := 0, 0
	efi := c.fi(exp)
	allInstrs(exp, func(in ssa.Instruction) {
		call, ok := in.(*ssa.Call)
		if !ok || call.Call.StaticCallee() == nil {
			return
		}
		switch call.Call.StaticCallee().Name() {
		case "Consume":
			nCons++
			if t := c.term(call.Call.Args[1]); !strings.Contains(t, "Token(") {
				p2 = append(p2, "llk.Consume is not given the element's token: "+t)
			}
			// the false edge must return false
			okFail := false
			for _, ref := range *call.Referrers() {
				if iff, ok := ref.(*ssa.If); ok {
					for _, r := range c.returnsOf(exp) {
						if efi.dominates(iff.Block().Succs[1], r.Block()) {
							if k, ok := resultValues(r)[0].(*ssa.Const); ok && k.Value != nil && !constant.BoolVal(k.Value) {
								okFail = true
							}
						}
					}
				}
			}
			if !okFail {
				p2 = append(p2, "a failed llk.Consume does not lead to `return false`")
			}
		case "consume":
			nSym++
			if t := c.term(call.Call.Args[3]); !strings.Contains(t, "Symbol(") {
				p2 = append(p2, "p.consume is not given the element's symbol: "+t)
			}
		}
	})
	if nCons != 1 || nSym != 1 {
		p2 = append(p2, fmt.Sprintf("%d llk.Consume and %d p.consume calls in expect, expected 1 and 1", nCons, nSym))
	}
	c.check(len(p2) == 0, "(*grammar.Parser).expect conforms to the model", exp.Pos(),
		"elements handled in order: token -> llk.Consume(token) else fail; symbol -> p.consume(symbol)", strings.Join(p2, "; "))
}

// isRangeIndex: v is the induction value of a `for ... range` over a slice (phi(-1, v) + 1).
func isRangeIndex(v ssa.Value) bool {
	bo, ok := v.(*ssa.BinOp)
	if !ok || bo.Op != token.ADD {
		return false
	}
	phi, ok := bo.X.(*ssa.Phi)
	if one, ok2 := constInt(bo.Y); !ok || !ok2 || one != 1 {
		return false
	}
	sawInit, sawSelf := false, false
	for _, e := range phi.Edges {
		if n, ok := constInt(e); ok && n == -1 {
			sawInit = true
		} else if e == v {
			sawSelf = true
		} else {
			return false
		}
	}
	return sawInit && sawSelf
}

// ---- G3 semantic grammar has the same shape ---------------------------------------------------

func ruleG3(c *Ctx) {
	c.Rule("G3", "the grammar with semantic hooks has exactly the rules and alternatives of the plain grammar: SemanticBQL starts from BQL(), nothing in package grammar outside the table literals stores to Clause.Elements or adds/removes Grammar entries, the hook setters store only to hook fields, and every symbol in an attachment list is a rule", 40)
	g := c.grammarTable()
	sp := c.ssapkg("bql/grammar")
	if sp == nil {
		c.undecided("package grammar", token.NoPos, "not loaded")
		return
	}
	clause := c.mustNamed("bql/grammar", "Clause")
	gram := c.mustNamed("bql/grammar", "Grammar")
	if clause == nil || gram == nil {
		return
	}
	hookFields := map[string]bool{}
	st := clause.Underlying().(*types.Struct)
	for i := 0; i < st.NumFields(); i++ {
		f := st.Field(i)
		if isNamed(f.Type(), modPath+"/bql/semantic", "ClauseHook") || isNamed(f.Type(), modPath+"/bql/semantic", "ElementHook") {
			hookFields[f.Name()] = true
		}
	}
	for _, fn := range c.srcFuncs("bql/grammar") {
		top := fn
		for top.Parent() != nil {
			top = top.Parent()
		}
		isBuilder := g.builders[top.Name()] && top.Signature.Recv() == nil
		var bad []string
		allInstrs(fn, func(in ssa.Instruction) {
			switch x := in.(type) {
			case *ssa.Store:
				if fa, ok := x.Addr.(*ssa.FieldAddr); ok && namedOf(fa.X.Type()) == clause {
					name := fieldName(fa.X.Type(), fa.Field)
					if !hookFields[name] && !isBuilder {
						bad = append(bad, fmt.Sprintf("stores to Clause.%s at %s", name, c.pos(in.Pos())))
					}
				}
				// element stores into a clause's Elements slice outside builders
				if ia, ok := x.Addr.(*ssa.IndexAddr); ok && !isBuilder {
					if strings.Contains(c.term(ia.X), ".Elements") {
						bad = append(bad, fmt.Sprintf("overwrites an element of a clause at %s", c.pos(in.Pos())))
					}
				}
			case *ssa.MapUpdate:
				if namedOf(x.Map.Type()) == gram && !isBuilder {
					bad = append(bad, fmt.Sprintf("adds or replaces a Grammar entry at %s", c.pos(in.Pos())))
				}
				if u, ok := x.Map.(*ssa.UnOp); ok && namedOf(u.Type()) == gram && !isBuilder {
					_ = u
				}
			case *ssa.Call:
				if isBuiltinCall(&x.Call, "delete") && namedOf(x.Call.Args[0].Type()) == gram {
					bad = append(bad, fmt.Sprintf("deletes a Grammar entry at %s", c.pos(in.Pos())))
				}
				if isBuiltinCall(&x.Call, "append") && !isBuilder {
					if sl, ok := x.Type().Underlying().(*types.Slice); ok {
						if namedOf(sl.Elem()) == clause || isNamed(sl.Elem(), modPath+"/bql/grammar", "Element") {
							bad = append(bad, fmt.Sprintf("appends to a clause/element list at %s", c.pos(in.Pos())))
						}
					}
				}
			}
		})
		if fn.Parent() == nil && (len(bad) > 0 || !isBuilder) {
			key := funcName(fn) + " leaves the grammar shape alone"
			if len(bad) > 0 {
				c.bad(key, fn.Pos(), "%s", strings.Join(bad, "; "))
			} else {
				c.trivial(key, fn.Pos(), "no store to Clause.Elements, no Grammar map update/delete, no append to clause lists")
			}
		} else if len(bad) > 0 {
			c.bad(funcName(fn)+" leaves the grammar shape alone", fn.Pos(), "%s", strings.Join(bad, "; "))
		}
	}
	// SemanticBQL returns the value of its BQL() call
	sem := c.mustFunc("bql/grammar", "SemanticBQL")
	bqlFn := c.mustFunc("bql/grammar", "BQL")
	if sem != nil && bqlFn != nil {
		okRet := true
		for _, r := range c.returnsOf(sem) {
			call, ok := resultValues(r)[0].(*ssa.Call)
			if !ok || call.Call.StaticCallee() != bqlFn {
				okRet = false
			}
		}
		c.check(okRet, "grammar.SemanticBQL returns BQL()", sem.Pos(), "every return is the value of the BQL() call", "SemanticBQL returns something other than the grammar built by BQL()")
		// attachment lists: string constants converted to semantic.Symbol stored into slices
		d, info := c.findDecl("bql/grammar", "SemanticBQL")
		n := 0
		if d != nil {
			ast.Inspect(d.Body, func(nd ast.Node) bool {
				cl, ok := nd.(*ast.CompositeLit)
				if !ok {
					return true
				}
				t := info.TypeOf(cl)
				sl, ok := t.Underlying().(*types.Slice)
				if !ok || !isNamed(sl.Elem(), modPath+"/bql/semantic", "Symbol") {
					return true
				}
				for _, e := range cl.Elts {
					tv, ok := info.Types[e]
					if !ok || tv.Value == nil {
						c.undecided("attachment list entry", e.Pos(), "symbol is not a constant")
						continue
					}
					s := constant.StringVal(tv.Value)
					n++
					if _, ok := g.rules[s]; ok {
						c.ok("hook attached to symbol "+s, e.Pos(), "symbol is a rule of the table")
					} else {
						c.bad("hook attached to symbol "+s, e.Pos(), "attachment list names %q, which is not a rule: the hook is silently never installed", s)
					}
				}
				return true
			})
		}
		if n < 40 {
			c.undecided("attachment lists", sem.Pos(), "only %d attachment-list entries found", n)
		}
	}
}
