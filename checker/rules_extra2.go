package main

import (
	"fmt"
	"go/token"
	"go/types"
	"regexp"
	"sort"
	"strings"

	"golang.org/x/tools/go/ssa"
)

// Rules added after the second round of seeded changes (DESIGN.md §0.2).

// ---- H3y pool discipline everywhere -------------------------------------------------------------------------

func ruleH3y(c *Ctx, rels ...string) {
	c.Rule("H3y", "a pooled buffer is returned to its sync.Pool only after its last use, in every function of the module: Put is deferred, or nothing uses the value (or bytes aliasing it) afterwards", 4)
	n := 0
	for _, fn := range c.srcFuncs(rels...) {
		fi := c.fi(fn)
		allInstrs(fn, func(in ssa.Instruction) {
			cc := callCommon(in)
			if cc == nil || !isCallTo(cc, "sync", "Put") || len(cc.Args) < 2 {
				return
			}
			n++
			key := funcName(fn) + " returns its pooled buffer last"
			if _, isDefer := in.(*ssa.Defer); isDefer {
				c.ok(key, in.Pos(), "Put is deferred")
				return
			}
			pooled := cc.Args[1]
			if mi, ok := pooled.(*ssa.MakeInterface); ok {
				pooled = mi.X
			}
			late := ""
			var uses func(v ssa.Value, d int)
			uses = func(v ssa.Value, d int) {
				if d > 3 || v.Referrers() == nil {
					return
				}
				for _, r := range *v.Referrers() {
					if r == in {
						continue
					}
					if fi.instrDominates(in, r) {
						late = c.pos(r.Pos())
					}
					if rv, ok := r.(ssa.Value); ok {
						if call, isCall := r.(*ssa.Call); isCall && !isCallTo(&call.Call, "bytes", "Bytes") {
							continue
						}
						uses(rv, d+1)
					}
				}
			}
			uses(pooled, 0)
			c.check(late == "", key, in.Pos(), "nothing uses the buffer after Put", "the buffer is put back into the pool at "+c.pos(in.Pos())+" but is still used at "+late+": a concurrent caller can get the same buffer and the two overwrite each other's bytes")
		})
	}
	if n < 4 {
		c.undecided("pool Put sites", token.NoPos, "only %d found", n)
	}
}

// ---- S2y presence test and effect in one critical section ------------------------------------------------------

func ruleS2y(c *Ctx) {
	c.Rule("S2y", "creating or dropping a graph name is one critical section: the presence test of NewGraph/DeleteGraph is made with the store's write lock held and the lock is not released between the test and the map update", 2)
	a := c.storeAnchors()
	if a == nil {
		return
	}
	for _, o := range c.lockOwners() {
		isStore := false
		for _, s := range a.storeImpls {
			if s == o.named {
				isStore = true
			}
		}
		if !isStore {
			continue
		}
		for _, mname := range []string{"NewGraph", "DeleteGraph"} {
			fn := methodByName(c, o.named, mname)
			if fn == nil {
				continue
			}
			fi := c.fi(fn)
			at := c.lockFlow(fn, o.lock)
			var test, effect ssa.Instruction
			var unlocks []ssa.Instruction
			allInstrs(fn, func(in ssa.Instruction) {
				switch x := in.(type) {
				case *ssa.Lookup:
					if x.CommaOk && fieldOfLoad(x.X) != nil && o.guarded[fieldOfLoad(x.X)] {
						test = in
					}
				case *ssa.MapUpdate:
					if f := fieldOfLoad(x.Map); f != nil && o.guarded[f] {
						effect = in
					}
				case *ssa.Call:
					if isBuiltinCall(&x.Call, "delete") && fieldOfLoad(x.Call.Args[0]) != nil && o.guarded[fieldOfLoad(x.Call.Args[0])] {
						effect = in
					}
					if op := lockOp(&x.Call, o.lock); op == "Unlock" || op == "RUnlock" {
						unlocks = append(unlocks, in)
					}
				}
			})
			key := funcName(fn) + " tests and updates under one write lock"
			if test == nil || effect == nil {
				c.undecided(key, fn.Pos(), "presence test or map effect not found")
				continue
			}
			var probs []string
			for s := range at(test) {
				if s.mode != lkW {
					probs = append(probs, "the presence test at "+c.pos(test.Pos())+" is made holding "+modeName(s.mode)+" instead of the write lock")
				}
			}
			for _, u := range unlocks {
				if fi.instrDominates(test, u) && fi.instrDominates(u, effect) {
					probs = append(probs, "the lock is released at "+c.pos(u.Pos())+" between the presence test and the map update")
				}
			}
			c.check(len(probs) == 0, key, test.Pos(), "test and effect in one write-locked section", strings.Join(uniq(probs), "; ")+": two concurrent callers can both pass the test, and the later update replaces the earlier one (a graph and its triples are lost)")
		}
	}
}

// ---- P5c stage guards ---------------------------------------------------------------------------------------------

func ruleP5c(c *Ctx) {
	c.Rule("P5c", "each result stage does its work whenever its clause is present and on nothing else: orderBy sorts iff the ORDER BY list is non-empty, having filters iff a HAVING clause exists, limit truncates iff a limit was set; processGraphPattern processes every clause of the pattern", 4)
	type st struct {
		fn, op string
		allow  []string // regexps of the only facts that may dominate the operation
	}
	for _, s := range []st{
		{"queryPlan.orderBy", "Sort", []string{`len\(.*OrderByConfig\(.*\)\) <= 0\)=false`, `len\(.*\) > 0\)=true`}},
		{"queryPlan.having", "Filter", []string{`HasHavingClause\(.*\)=true`}},
		{"queryPlan.limit", "Limit", []string{`IsLimitSet\(.*\)=true`}},
	} {
		fn := c.mustFunc("bql/planner", s.fn)
		if fn == nil {
			continue
		}
		fi := c.fi(fn)
		var op ssa.Instruction
		allInstrs(fn, func(in ssa.Instruction) {
			if call, ok := in.(*ssa.Call); ok && call.Call.StaticCallee() != nil && call.Call.StaticCallee().Name() == s.op && call.Call.StaticCallee().Signature.Recv() != nil && isNamed(call.Call.StaticCallee().Signature.Recv().Type(), modPath+"/bql/table", "Table") {
				op = in
			}
		})
		key := "(*planner." + s.fn + ") applies Table." + s.op + " whenever the clause is present"
		if op == nil {
			c.bad(key, fn.Pos(), "%s no longer calls Table.%s", s.fn, s.op)
			continue
		}
		// path argument: apart from the negative edge of the clause's own presence test, no path from the entry reaches a
		// return without passing the operation
		enabling := func(b *ssa.BasicBlock, succIdx int) bool {
			iff, ok := b.Instrs[len(b.Instrs)-1].(*ssa.If)
			if !ok {
				return false
			}
			for _, a := range s.allow {
				re := regexp.MustCompile(a)
				// the edge on which the presence test says "absent"
				if re.MatchString(fmt.Sprintf("%s=%v", c.term(iff.Cond), succIdx != 0)) {
					return true
				}
			}
			return false
		}
		seen := map[int]bool{0: true}
		stack := []int{0}
		escape := ""
		nAllowed := 0
		for len(stack) > 0 {
			u := stack[len(stack)-1]
			stack = stack[:len(stack)-1]
			b := fn.Blocks[u]
			if b == op.Block() {
				continue
			}
			if _, isRet := b.Instrs[len(b.Instrs)-1].(*ssa.Return); isRet && fi.cutAt[u] < 0 {
				escape = "block " + fmt.Sprint(b.Index) + " " + c.pos(b.Instrs[len(b.Instrs)-1].Pos())
			}
			for si, sb := range b.Succs {
				if fi.cutAt[u] >= 0 {
					continue
				}
				if enabling(b, si) {
					nAllowed++
					continue
				}
				if !seen[sb.Index] {
					seen[sb.Index] = true
					stack = append(stack, sb.Index)
				}
			}
		}
		c.check(escape == "" && nAllowed > 0, key, op.Pos(), "only the clause's own absence test lets a path skip the operation", "a path through "+s.fn+" reaches the return at "+escape+" without calling Table."+s.op+" although the clause is present: for some statements that carry the clause the stage is skipped (e.g. a LIMIT that is not enforced over several graphs, an ORDER BY direction that is ignored)")
	}
	// processGraphPattern: processClause for every clause
	if fn := c.mustFunc("bql/planner", "queryPlan.processGraphPattern"); fn != nil {
		fi := c.fi(fn)
		// the call to processClause: in the clause loop itself, or unconditionally inside a same-package helper that the
		// loop calls for each clause (pc is then the call of that helper)
		var pc ssa.Instruction
		argTerm, inHelperOK := "", true
		walkHelpers(fn, 2, func(inFn *ssa.Function, in ssa.Instruction, top ssa.Instruction) {
			if call, ok := in.(*ssa.Call); ok && call.Call.StaticCallee() != nil && fnName(call.Call.StaticCallee()) == "processClause" && len(call.Call.Args) > 2 {
				pc = top
				argTerm = c.term(call.Call.Args[2])
				if inFn != fn {
					hfi := c.fi(inFn)
					inHelperOK = len(inFn.Blocks) > 0 && hfi.postDominates(in.Block(), inFn.Blocks[0])
				}
			}
		})
		key := "processGraphPattern processes every clause"
		if pc == nil {
			c.bad(key, fn.Pos(), "no call to processClause")
		} else if !inHelperOK {
			c.bad(key, pc.Pos(), "the helper called for each clause does not call processClause on every path")
		} else {
			// every way round the clause loop passes through processClause: each back edge into a block that dominates the
			// call comes from a block the call dominates
			skip := ""
			for _, b := range fn.Blocks {
				if !fi.reachable(b) || !inLoop(fi, b) {
					continue
				}
				for _, si := range fi.succs[b.Index] {
					if si >= fi.n {
						continue
					}
					hb := fn.Blocks[si]
					if fi.dominates(hb, pc.Block()) && hb != pc.Block() && fi.dominates(hb, b) && inLoop(fi, hb) && !fi.dominates(pc.Block(), b) && b != hb {
						// b jumps back to a header of the clause loop without having gone through processClause:
						// ignore inner loops that lie before the call (their headers do not dominate it from inside the clause loop)
						if sameLoop(fi, hb.Index, pc.Block().Index) && sameLoop(fi, b.Index, pc.Block().Index) {
							skip = "block " + fmt.Sprint(b.Index) + " " + c.pos(b.Instrs[len(b.Instrs)-1].Pos())
						}
					}
				}
			}
			okArg := strings.Contains(argTerm, ".clauses[")
			c.check(skip == "" && okArg && inLoop(fi, pc.Block()), key, pc.Pos(), "processClause(p.clauses[i]) on every iteration, unconditionally", "an iteration of the clause loop can end (at "+skip+") without calling processClause (or the call is not given the loop's clause): a clause of the pattern — e.g. an OPTIONAL one judged 'unused' — is never joined, which changes how often each solution appears")
		}
	}
}

// sameLoop: blocks a and b lie in a common cycle of the CFG.
func sameLoop(fi *fnInfo, a, b int) bool {
	for _, l := range fi.loops() {
		ina, inb := false, false
		for _, x := range l {
			if x == a {
				ina = true
			}
			if x == b {
				inb = true
			}
		}
		if ina && inb {
			return true
		}
	}
	return false
}

// ---- PO1 predicate/object component consistency ------------------------------------------------------------------------

func rulePO1(c *Ctx) {
	c.Rule("PO1", "predicate-side and object-side extraction never mix: a temporal predicate built as NewTemporal(X.PID, anchor) takes its anchor from the row under X.PAnchorBinding, NewTemporal(X.OID, ...) from X.OAnchorBinding; the two kind/bounds filters of shouldIgnoreTriple (predicate block, object block) are twins", 4)
	n := 0
	for _, fn := range c.srcFuncs("bql/planner") {
		allInstrs(fn, func(in ssa.Instruction) {
			call, ok := in.(*ssa.Call)
			if !ok || !isCallTo(&call.Call, modPath+"/triple/predicate", "NewTemporal") {
				return
			}
			idT := c.term(call.Call.Args[0])
			side := ""
			switch {
			case strings.HasSuffix(idT, ".PID"):
				side = "P"
			case strings.HasSuffix(idT, ".OID"):
				side = "O"
			default:
				return
			}
			n++
			anchorT := c.term(call.Call.Args[1])
			key := fmt.Sprintf("%s builds the %s-side temporal predicate from its own anchor", funcName(fn), side)
			want := "." + side + "AnchorBinding]"
			other := "." + map[string]string{"P": "O", "O": "P"}[side] + "AnchorBinding]"
			switch {
			case strings.Contains(anchorT, other):
				c.bad(key, in.Pos(), "NewTemporal(%s, …) at %s takes its anchor from %s: the %s side is anchored on the other side's time binding, so rows are joined (or triples built) with the wrong instant", truncate(idT, 40), c.pos(in.Pos()), truncate(anchorT, 80), side)
			case strings.Contains(anchorT, want):
				c.ok(key, in.Pos(), "anchor read from the row under %sAnchorBinding", side)
			default:
				c.bad(key, in.Pos(), "NewTemporal(%s, …) at %s takes its anchor from %s, which is not the row value under %sAnchorBinding", truncate(idT, 40), c.pos(in.Pos()), truncate(anchorT, 80), side)
			}
		})
	}
	if n < 4 {
		c.undecided("NewTemporal sites in the planner", token.NoPos, "only %d found", n)
	}
	// shouldIgnoreTriple twins
	fn := c.mustFunc("bql/planner", "shouldIgnoreTriple")
	if fn == nil {
		return
	}
	fi := c.fi(fn)
	norm := func(t string) string {
		t = strings.ReplaceAll(t, "(*triple.Object).Predicate((*triple.Triple).Object(param:"+fn.Params[0].Name()+"))#0", "PRED")
		t = strings.ReplaceAll(t, "(*triple.Triple).Predicate(param:"+fn.Params[0].Name()+")", "PRED")
		for _, f := range []string{"ID", "Temporal", "AnchorBinding", "LowerBound", "UpperBound"} {
			t = strings.ReplaceAll(t, ".P"+f, ".X"+f)
			t = strings.ReplaceAll(t, ".O"+f, ".X"+f)
		}
		return t
	}
	sides := map[string][]string{}
	for _, r := range c.returnsOf(fn) {
		k, ok := resultValues(r)[0].(*ssa.Const)
		if !ok || k.Value == nil || k.Value.ExactString() != "true" || !isNilConst(resultValues(r)[1]) {
			continue
		}
		var facts []string
		side := ""
		for _, ft := range fi.factsAt(r.Block()) {
			t := c.term(ft.Cond)
			if strings.HasPrefix(t, "((*triple.Object).Predicate(") && strings.HasSuffix(t, ")#1 == nil)") && !strings.Contains(t, "TimeAnchor") {
				continue // the test that the object is a predicate at all has no counterpart on the predicate side
			}
			if strings.Contains(t, ".PID") || strings.Contains(t, ".PTemporal") {
				side = "P"
			}
			if strings.Contains(t, ".OID") || strings.Contains(t, ".OTemporal") {
				if side == "" {
					side = "O"
				}
			}
			facts = append(facts, fmt.Sprintf("%s=%v", norm(t), ft.Truth))
		}
		// a return in the object block is also dominated by the predicate block's fall-through facts; keep only facts of its own side
		var own []string
		for _, f := range facts {
			own = append(own, f)
		}
		sort.Strings(own)
		sides[side] = append(sides[side], strings.Join(own, " & "))
	}
	// compare the number and shape of ignore-returns per side, using only the facts that mention X-fields or PRED
	shape := func(xs []string, side string) []string {
		var out []string
		for _, x := range xs {
			var keep []string
			for _, f := range strings.Split(x, " & ") {
				if strings.Contains(f, ".X") || strings.Contains(f, "PRED") {
					keep = append(keep, f)
				}
			}
			out = append(out, strings.Join(keep, " & "))
		}
		sort.Strings(out)
		return out
	}
	// facts of the O side include the (fallen-through) P-side facts; remove from each O shape the facts that state the P block was passed
	ps, os := shape(sides["P"], "P"), shape(sides["O"], "O")
	// heuristic alignment: compare the last k facts of each return, where k = number of facts in the matching P return
	trim := func(x string, n int) string {
		parts := strings.Split(x, " & ")
		if len(parts) > n {
			// keep the n facts that are most specific: the ones appearing least often across this side
			parts = parts[len(parts)-n:]
		}
		return strings.Join(parts, " & ")
	}
	_ = trim
	key := "shouldIgnoreTriple predicate block ~ object block"
	if len(ps) == 0 || len(os) == 0 {
		c.undecided(key, fn.Pos(), "ignore-returns not found (P %d, O %d)", len(ps), len(os))
		return
	}
	// count facts per return on each side, as multisets of fact counts relative to the side's first return
	count := func(xs []string) []int {
		base := len(strings.Split(xs[0], " & "))
		for _, x := range xs {
			if n := len(strings.Split(x, " & ")); n < base {
				base = n
			}
		}
		var out []int
		for _, x := range xs {
			out = append(out, len(strings.Split(x, " & "))-base)
		}
		sort.Ints(out)
		return out
	}
	cp, co := count(ps), count(os)
	c.check(len(ps) == len(os) && fmt.Sprint(cp) == fmt.Sprint(co), key, fn.Pos(), fmt.Sprintf("%d ignore-returns on each side with the same nesting of guards %v", len(ps), cp),
		fmt.Sprintf("the predicate block has %d ignore-returns with guard depths %v, the object block %d with %v: one side drops triples under a weaker condition than its twin (e.g. the kind test no longer requires the anchor not to be a binding, so an OPTIONAL clause with \"id\"@[?t] loses its immutable matches)", len(ps), cp, len(os), co))
}

// ---- TB1 table metadata stays in step; Truncate releases the rows -----------------------------------------------------------

func ruleTB1(c *Ctx) {
	c.Rule("TB1", "a table's two descriptions of its columns never diverge and old rows are not aliased: every Table method that assigns AvailableBindings also assigns mbs on the same paths (and vice versa); Truncate drops the row slice (assigns nil or a fresh slice), it does not keep the backing array that Rows() handed out", 5)
	tt := c.mustNamed("bql/table", "Table")
	if tt == nil {
		return
	}
	n := 0
	var fns []*ssa.Function
	fns = append(fns, c.methodsOf(tt)...)
	if f := c.lookupFunc("bql/table", "joinWithRange"); f != nil {
		fns = append(fns, f)
	}
	for _, fn := range fns {
		fi := c.fi(fn)
		var ab, mb []ssa.Instruction
		allInstrs(fn, func(in ssa.Instruction) {
			if mu, ok := in.(*ssa.MapUpdate); ok {
				if f := fieldOfLoad(mu.Map); f != nil && fieldCanon(f) == "mbs" {
					mb = append(mb, in)
				}
				return
			}
			st, ok := in.(*ssa.Store)
			if !ok {
				return
			}
			fa, ok := st.Addr.(*ssa.FieldAddr)
			if !ok || namedOf(fa.X.Type()) != tt {
				return
			}
			if _, fresh := fa.X.(*ssa.Alloc); fresh {
				return
			}
			switch fieldName(fa.X.Type(), fa.Field) {
			case "AvailableBindings":
				ab = append(ab, in)
			case "mbs":
				mb = append(mb, in)
			}
		})
		if len(ab) == 0 && len(mb) == 0 {
			continue
		}
		n++
		key := funcName(fn) + " updates AvailableBindings and mbs together"
		// each store to mbs must be matched by a store to AvailableBindings in a block related by (post)dominance, and vice versa.
		// appends to AvailableBindings inside a loop count for the loop's function-level block set.
		paired := func(xs, ys []ssa.Instruction) string {
			for _, x := range xs {
				okp := false
				for _, y := range ys {
					if fi.instrDominates(x, y) || fi.instrDominates(y, x) || fi.instrPostDominates(y, x) || fi.instrPostDominates(x, y) {
						// both lie on the paths through x
						if fi.instrPostDominates(y, x) || fi.instrDominates(y, x) {
							okp = true
						}
					}
				}
				if !okp {
					return c.pos(x.Pos())
				}
			}
			return ""
		}
		// loops appending AvailableBindings may run zero times; accept a store in a loop whose header post-dominates/dominates
		pairLoose := func(xs, ys []ssa.Instruction) string {
			for _, x := range xs {
				okp := false
				for _, y := range ys {
					// y is executed on every path through x, possibly inside a loop that follows/precedes x
					if fi.instrDominates(y, x) || fi.instrPostDominates(y, x) {
						okp = true
					}
					if inLoop(fi, y.Block()) {
						for _, l := range fi.loops() {
							inl := false
							for _, bi := range l {
								if bi == y.Block().Index {
									inl = true
								}
							}
							if !inl {
								continue
							}
							for _, bi := range l {
								hb := fi.fn.Blocks[bi]
								if fi.dominates(hb, x.Block()) || fi.postDominates(hb, x.Block()) {
									okp = true
								}
							}
						}
					}
				}
				if !okp {
					return c.pos(x.Pos())
				}
			}
			return ""
		}
		_ = paired
		bad := ""
		if p := pairLoose(mb, ab); p != "" {
			bad = "mbs is assigned at " + p + " without AvailableBindings being brought in line on that path"
		}
		if p := pairLoose(ab, mb); p != "" && bad == "" {
			// appends of single bindings (AddBindings) update mbs per element: accept when both are inside the same loop
			bad = "AvailableBindings is assigned at " + p + " without mbs being brought in line on that path"
		}
		c.check(bad == "", key, fn.Pos(), fmt.Sprintf("%d stores to AvailableBindings and %d to mbs, always on the same paths", len(ab), len(mb)), bad+": Bindings() and HasBinding()/ProjectBindings() then disagree about the table's columns, and a later projection or GROUP BY fails or drops a column")
	}
	if n < 5 {
		c.undecided("Table methods updating bindings", token.NoPos, "only %d found", n)
	}
	if tr := c.mustFunc("bql/table", "Table.Truncate"); tr != nil {
		okT := false
		got := ""
		allInstrs(tr, func(in ssa.Instruction) {
			st, ok := in.(*ssa.Store)
			if !ok {
				return
			}
			if fa, ok := st.Addr.(*ssa.FieldAddr); ok && fieldName(fa.X.Type(), fa.Field) == "Data" {
				got = c.term(st.Val)
				if isNilConst(st.Val) {
					okT = true
				}
				if _, isMake := st.Val.(*ssa.MakeSlice); isMake {
					okT = true
				}
			}
		})
		c.check(okT, "Table.Truncate releases the row slice", tr.Pos(), "Data = nil", "Truncate assigns "+truncate(got, 60)+" to Data: the backing array is kept, so rows appended afterwards overwrite the slice a caller obtained from Rows() just before (specifyClauseWithTable iterates exactly such a slice while workers append)")
	}
}

// ---- S12b / S8y / M1x / M4b / L6d ---------------------------------------------------------------------------------------------

func ruleS12b(c *Ctx, rels ...string) {
	c.Rule("S12b", "instants are compared as instants: no == or != between time.Time values (struct comparison also compares the location pointer and the monotonic reading)", 0)
	n := 0
	for _, fn := range c.srcFuncs(rels...) {
		allInstrs(fn, func(in ssa.Instruction) {
			bo, ok := in.(*ssa.BinOp)
			if !ok || (bo.Op != token.EQL && bo.Op != token.NEQ) {
				return
			}
			if isNamed(bo.X.Type(), "time", "Time") {
				if _, isPtr := bo.X.Type().Underlying().(*types.Pointer); isPtr {
					return // pointer comparison with nil etc.
				}
				n++
				c.bad(funcName(fn)+" compares time.Time with "+bo.Op.String(), in.Pos(), "%s at %s compares two time.Time structs: equal instants written in different zones (or parsed separately) compare unequal — use Equal", bo.Op, c.pos(in.Pos()))
			}
		})
	}
	if n == 0 {
		c.ok("time.Time struct comparisons", token.NoPos, "none in %v", rels)
	}
}

func ruleS8y(c *Ctx) {
	c.Rule("S8y", "the checker judges with the caller's own options: newChecker stores the *LookupOptions it was given (not an altered copy) in the checker", 1)
	fn := c.mustFunc("storage/memory", "newChecker")
	if fn == nil {
		return
	}
	p := paramOfNamed(fn, modPath+"/storage", "LookupOptions")
	if p == nil {
		c.undecided("newChecker options parameter", fn.Pos(), "not found")
		return
	}
	okO, got := false, ""
	allInstrs(fn, func(in ssa.Instruction) {
		st, ok := in.(*ssa.Store)
		if !ok {
			return
		}
		fa, ok := st.Addr.(*ssa.FieldAddr)
		if !ok || !isNamed(st.Val.Type(), modPath+"/storage", "LookupOptions") {
			return
		}
		_ = fa
		got = c.term(st.Val)
		if isValueOfParam(st.Val, p) {
			okO = true
		} else {
			okO = false
		}
	})
	c.check(okO, "newChecker keeps the caller's options", fn.Pos(), "checker.o = the options parameter", "newChecker stores "+truncate(got, 60)+" instead of the options it was given: the window (or another option) the caller set is not what the bucket post-filter applies")
}

func ruleM1x(c *Ctx) {
	c.Rule("M1x", "every field of LookupOptions is written into the rendering that is hashed into the cache key — used as a value, not merely tested", 6)
	lo := c.mustNamed("storage", "LookupOptions")
	str := c.mustFunc("storage", "LookupOptions.String")
	if lo == nil || str == nil {
		return
	}
	st := lo.Underlying().(*types.Struct)
	for i := 0; i < st.NumFields(); i++ {
		f := st.Field(i)
		written := false
		allInstrs(str, func(in ssa.Instruction) {
			fa, ok := in.(*ssa.FieldAddr)
			if !ok || fieldVar(fa.X.Type(), fa.Field) != f {
				return
			}
			for _, r := range *fa.Referrers() {
				ld, ok := r.(*ssa.UnOp)
				if !ok {
					continue
				}
				var flows func(v ssa.Value, d int)
				flows = func(v ssa.Value, d int) {
					if d > 4 || v.Referrers() == nil {
						return
					}
					for _, r2 := range *v.Referrers() {
						switch x := r2.(type) {
						case *ssa.Call:
							written = true
							_ = x
						case *ssa.MakeInterface, *ssa.Convert, *ssa.ChangeType, *ssa.UnOp:
							flows(x.(ssa.Value), d+1)
						case *ssa.Store:
							// stored into a varargs array for Sprintf
							written = true
						}
					}
				}
				flows(ld, 0)
			}
		})
		c.check(written, "LookupOptions."+f.Name()+" is written into the key rendering", f.Pos(), "its value is passed to a formatting/writing call", "field "+f.Name()+" is only tested in LookupOptions.String, its value never reaches the output: lookups that differ in "+f.Name()+" share a memoizer cache entry")
	}
}

func ruleM4b(c *Ctx) {
	c.Rule("M4b", "what the memoizer caches is everything the driver delivered: in each streamed lookup, every element received from the inner channel is either appended to the list that will be cached or ends the call — no iteration forwards or drops an element without recording it", 11)
	gm, _, cacheFields, _ := c.memoAnchors()
	if gm == nil {
		return
	}
	for _, fn := range c.methodsOf(gm) {
		if chanParam(fn) == nil {
			continue
		}
		fi := c.fi(fn)
		// the value cached, and the appends that build it (through phis or a local cell)
		var cached ssa.Value
		walkHelpers(fn, 2, func(_ *ssa.Function, in ssa.Instruction, _ ssa.Instruction) {
			if mu, ok := in.(*ssa.MapUpdate); ok {
				if f := fieldOfLoad(mu.Map); f != nil && cacheFields[f] {
					cached = resolveParam(mu.Value)
				}
			}
		})
		appends := map[ssa.Instruction]bool{}
		var cachedCell ssa.Value
		if cached != nil {
			cachedCell = cached
			seenV := map[ssa.Value]bool{}
			var web func(v ssa.Value)
			web = func(v ssa.Value) {
				if seenV[v] {
					return
				}
				seenV[v] = true
				switch x := v.(type) {
				case *ssa.Phi:
					for _, e := range x.Edges {
						web(e)
					}
				case *ssa.Call:
					if isBuiltinCall(&x.Call, "append") {
						appends[x] = true
						web(x.Call.Args[0])
					}
				case *ssa.UnOp:
					if al, ok := x.X.(*ssa.Alloc); ok {
						for _, r := range *al.Referrers() {
							if st, ok := r.(*ssa.Store); ok && st.Addr == al {
								web(st.Val)
							}
						}
					}
				}
			}
			web(cached)
		}
		// the receive from the inner channel
		var recv ssa.Instruction
		allInstrs(fn, func(in ssa.Instruction) {
			if u, ok := in.(*ssa.UnOp); ok && u.Op == token.ARROW && u.CommaOk && inLoop(fi, in.Block()) {
				recv = in
			}
		})
		key := funcName(fn) + " records every delivered element"
		if cachedCell == nil || recv == nil {
			c.undecided(key, fn.Pos(), "cached list or receive loop not found")
			continue
		}
		c.analysed(funcName(fn))
		isAppend := func(in ssa.Instruction) bool { return appends[in] }
		// from the receive's "got an element" successor, search for a path back to the receive block without an append
		start := recv.Block()
		var body *ssa.BasicBlock
		for _, r := range *recv.(*ssa.UnOp).Referrers() {
			if ex, ok := r.(*ssa.Extract); ok && ex.Index == 1 {
				for _, r2 := range *ex.Referrers() {
					if iff, ok := r2.(*ssa.If); ok {
						body = iff.Block().Succs[0]
					}
				}
			}
		}
		if body == nil {
			c.undecided(key, recv.Pos(), "loop body not identified")
			continue
		}
		hasAppend := func(b *ssa.BasicBlock) bool {
			for _, in := range b.Instrs {
				if isAppend(in) {
					return true
				}
			}
			return false
		}
		bad := ""
		seen := map[int]bool{}
		var stack []*ssa.BasicBlock
		if !hasAppend(body) {
			stack = append(stack, body)
			seen[body.Index] = true
		}
		for len(stack) > 0 {
			b := stack[len(stack)-1]
			stack = stack[:len(stack)-1]
			for _, si := range fi.succs[b.Index] {
				if si >= fi.n {
					continue
				}
				sb := fn.Blocks[si]
				if sb == start || fi.dominates(sb, start) && sb != body {
					bad = c.pos(b.Instrs[len(b.Instrs)-1].Pos())
					continue
				}
				if seen[si] || hasAppend(sb) {
					continue
				}
				seen[si] = true
				stack = append(stack, sb)
			}
		}
		c.check(bad == "", key, recv.Pos(), "every iteration of the receive loop appends to the cached list or returns", "an iteration of the receive loop can go round (via "+bad+") without appending the element to the list that is cached afterwards: a truncated answer is memoized and served to later callers as complete")
	}
}

func ruleL6d(c *Ctx) {
	c.Rule("L6d", "a consumer that stops early still empties its channel: addTriples, which ranges over the triples channel its caller is sending on, drains that channel on every exit (deferred drain), so the sender can never block forever while the driver holds the graph's read lock", 1)
	fn := c.mustFunc("bql/planner", "addTriples")
	if fn == nil {
		return
	}
	var ch *ssa.Parameter
	for _, p := range fn.Params {
		if cht, ok := p.Type().Underlying().(*types.Chan); ok && cht.Dir() == types.RecvOnly {
			ch = p
		}
	}
	if ch == nil {
		c.undecided("addTriples channel parameter", fn.Pos(), "not found")
		return
	}
	drainsOnEntry := false
	for _, in := range fn.Blocks[0].Instrs {
		d, ok := in.(*ssa.Defer)
		if !ok {
			continue
		}
		f := d.Call.StaticCallee()
		if f == nil || len(d.Call.Args) == 0 || !isValueOfParam(d.Call.Args[0], ch) {
			continue
		}
		allInstrs(f, func(i2 ssa.Instruction) {
			if u, ok := i2.(*ssa.UnOp); ok && u.Op == token.ARROW && u.CommaOk && inLoop(c.fi(f), i2.Block()) {
				drainsOnEntry = true
			}
		})
	}
	if drainsOnEntry {
		c.ok("addTriples drains its channel on every exit", fn.Pos(), "defer drain(ts) at entry")
		return
	}
	// otherwise every return must come after the receive loop ended or after an explicit drain
	fi := c.fi(fn)
	bad := ""
	for _, r := range c.returnsOf(fn) {
		okR := false
		allInstrs(fn, func(in ssa.Instruction) {
			if call, ok := in.(*ssa.Call); ok && call.Call.StaticCallee() != nil && len(call.Call.Args) > 0 && isValueOfParam(call.Call.Args[0], ch) && fi.instrDominates(in, r) {
				f := call.Call.StaticCallee()
				allInstrs(f, func(i2 ssa.Instruction) {
					if u, ok := i2.(*ssa.UnOp); ok && u.Op == token.ARROW && u.CommaOk {
						okR = true
					}
				})
			}
		})
		// or the return is after the loop (dominated by the channel-closed edge)
		for _, ft := range fi.factsAt(r.Block()) {
			if ex, ok := ft.Cond.(*ssa.Extract); ok && ex.Index == 1 && !ft.Truth {
				if u, ok := ex.Tuple.(*ssa.UnOp); ok && u.Op == token.ARROW {
					okR = true
				}
			}
		}
		if !okR {
			bad = c.pos(r.Pos())
		}
	}
	c.check(bad == "", "addTriples drains its channel on every exit", fn.Pos(), "each return follows the end of the stream or an explicit drain", "addTriples can return at "+bad+" with triples still being sent to it: the sender blocks, the driver goroutine behind it keeps the graph's read lock, and the statement (and every later write) hangs")
}
