package main

import (
	"golang.org/x/tools/go/ssa"
)

// flow is a forward path-state analysis over the cut CFG of fn. The abstract
// state S is finite and comparable; the value at a program point is the set of
// states reachable on some path (set-union join). transfer is applied per
// instruction; edge may refine or kill a state on a branch edge (succIdx is the
// index into Succs). It returns the set of states at every Return, keyed by it.
func flow[S comparable](c *Ctx, fn *ssa.Function, init S,
	transfer func(S, ssa.Instruction) S,
	edge func(S, *ssa.BasicBlock, int) (S, bool)) (atReturn map[*ssa.Return]map[S]bool, atInstr func(ssa.Instruction) map[S]bool) {

	fi := c.fi(fn)
	in := make([]map[S]bool, len(fn.Blocks))
	for i := range in {
		in[i] = map[S]bool{}
	}
	atReturn = map[*ssa.Return]map[S]bool{}
	if len(fn.Blocks) == 0 {
		return atReturn, func(ssa.Instruction) map[S]bool { return nil }
	}
	in[0][init] = true
	work := []int{0}
	inWork := map[int]bool{0: true}
	for len(work) > 0 {
		bi := work[0]
		work = work[1:]
		inWork[bi] = false
		b := fn.Blocks[bi]
		outs := map[S]bool{}
		for s := range in[bi] {
			cur := s
			cut := false
			for k, instr := range b.Instrs {
				if fi.cutAt[bi] >= 0 && k >= fi.cutAt[bi] {
					cut = true
					break
				}
				cur = transfer(cur, instr)
				if r, ok := instr.(*ssa.Return); ok {
					if atReturn[r] == nil {
						atReturn[r] = map[S]bool{}
					}
					atReturn[r][cur] = true
				}
			}
			if !cut {
				outs[cur] = true
			}
		}
		if _, isPanic := b.Instrs[len(b.Instrs)-1].(*ssa.Panic); isPanic {
			continue
		}
		for si, sb := range b.Succs {
			for s := range outs {
				ns, ok := s, true
				if edge != nil {
					ns, ok = edge(s, b, si)
				}
				if !ok {
					continue
				}
				if !in[sb.Index][ns] {
					in[sb.Index][ns] = true
					if !inWork[sb.Index] {
						inWork[sb.Index] = true
						work = append(work, sb.Index)
					}
				}
			}
		}
	}
	atInstr = func(target ssa.Instruction) map[S]bool {
		b := target.Block()
		res := map[S]bool{}
		for s := range in[b.Index] {
			cur := s
			for _, instr := range b.Instrs {
				if instr == target {
					res[cur] = true
					break
				}
				cur = transfer(cur, instr)
			}
		}
		return res
	}
	return atReturn, atInstr
}
