package main

import (
	"fmt"
	"go/token"
	"go/types"
	"sort"
	"strings"

	"golang.org/x/tools/go/ssa"
)

// ---- S1 index keys -------------------------------------------------------------

// paramBind maps the parameters of a helper being visited to the caller's argument values, so that effects found in
// an unexported helper (addToIndex(m.idxS, key, id, t)) are judged as if written at the call site.
var paramBind = map[*ssa.Parameter]ssa.Value{}

func resolveParam(v ssa.Value) ssa.Value {
	for i := 0; i < 8; i++ {
		// a variable captured by an immediately invoked or helper closure: the one value its cell was given
		if u, ok := v.(*ssa.UnOp); ok && u.Op == token.MUL {
			if al, ok := u.X.(*ssa.Alloc); ok {
				if sv := singleStore(al); sv != nil {
					v = sv
					continue
				}
			}
			if fv, ok := u.X.(*ssa.FreeVar); ok {
				if sv := freeVarSingleValue(fv); sv != nil {
					v = sv
					continue
				}
			}
		}
		p, ok := v.(*ssa.Parameter)
		if !ok {
			return v
		}
		b, ok := paramBind[p]
		if !ok {
			return v
		}
		v = b
	}
	return v
}

// helperCallee returns the same-package module function a call statically resolves to (nil for builtins, other
// packages, interface calls and functions without a body).
func helperCallee(from *ssa.Function, cc *ssa.CallCommon) *ssa.Function {
	f := cc.StaticCallee()
	if f == nil || f.Pkg == nil || from.Pkg == nil || f.Pkg != from.Pkg || len(f.Blocks) == 0 || f == from {
		return nil
	}
	return f
}

// intoHelper binds callee's parameters to the call's (resolved) arguments, runs visit and restores the bindings.
func intoHelper(callee *ssa.Function, cc *ssa.CallCommon, visit func()) {
	saved := map[*ssa.Parameter]ssa.Value{}
	had := map[*ssa.Parameter]bool{}
	for i, p := range callee.Params {
		if i >= len(cc.Args) {
			break
		}
		if old, ok := paramBind[p]; ok {
			saved[p], had[p] = old, true
		}
		paramBind[p] = resolveParam(cc.Args[i])
	}
	visit()
	for i, p := range callee.Params {
		if i >= len(cc.Args) {
			break
		}
		if had[p] {
			paramBind[p] = saved[p]
		} else {
			delete(paramBind, p)
		}
	}
}

// keyAtoms turns an index key value into the sequence of (component, identity method) atoms it is built from.
// S = subject node, P = predicate (P~ = PartialUUID), O = object, T = whole triple. "?" marks an unrecognised part.
func (c *Ctx) keyAtoms(v ssa.Value, depth int) []string {
	if depth > 12 {
		return []string{"?"}
	}
	switch x := v.(type) {
	case *ssa.Parameter:
		if b := resolveParam(x); b != ssa.Value(x) {
			return c.keyAtoms(b, depth+1)
		}
	case *ssa.BinOp:
		if x.Op == token.ADD {
			return append(c.keyAtoms(x.X, depth+1), c.keyAtoms(x.Y, depth+1)...)
		}
	case *ssa.Phi:
		var first []string
		for i, e := range x.Edges {
			a := c.keyAtoms(e, depth+1)
			if i == 0 {
				first = a
			} else if strings.Join(a, ",") != strings.Join(first, ",") {
				return []string{"?phi"}
			}
		}
		return first
	case *ssa.UnOp:
		if x.Op == token.MUL {
			if al, ok := x.X.(*ssa.Alloc); ok {
				// a local variable: all stores must agree... take the stores that dominate? keep it simple: require a single store, else union check
				var vals []ssa.Value
				for _, r := range *al.Referrers() {
					if st, ok := r.(*ssa.Store); ok && st.Addr == al {
						vals = append(vals, st.Val)
					}
				}
				if len(vals) == 1 {
					return c.keyAtoms(vals[0], depth+1)
				}
			}
		}
	case *ssa.Call:
		cc := &x.Call
		f := cc.StaticCallee()
		if f == nil {
			break
		}
		// byte-string helper: a module function string <- uuid.UUID
		if f.Pkg != nil && strings.HasPrefix(f.Pkg.Pkg.Path(), modPath) && len(cc.Args) == 1 && f.Signature.Recv() == nil {
			if isNamed(cc.Args[0].Type(), "github.com/pborman/uuid", "UUID") {
				return c.keyAtoms(cc.Args[0], depth+1)
			}
		}
		// identity method on a component
		if f.Signature.Recv() != nil && (f.Name() == "UUID" || f.Name() == "PartialUUID") && len(cc.Args) == 1 {
			kind := componentKind(cc.Args[0].Type())
			if kind != "" {
				if f.Name() == "PartialUUID" {
					kind += "~"
				}
				return []string{kind}
			}
		}
		// uuid.String() of an identity
		if f.Name() == "String" && len(cc.Args) == 1 && isNamed(cc.Args[0].Type(), "github.com/pborman/uuid", "UUID") {
			return c.keyAtoms(cc.Args[0], depth+1)
		}
	case *ssa.Convert:
		return c.keyAtoms(x.X, depth+1)
	case *ssa.ChangeType:
		return c.keyAtoms(x.X, depth+1)
	}
	return []string{"?" + strings.SplitN(fmt.Sprintf("%T", v), ".", 2)[1]}
}

func componentKind(t types.Type) string {
	switch {
	case isNamed(t, modPath+"/triple/node", "Node"):
		return "S"
	case isNamed(t, modPath+"/triple/predicate", "Predicate"):
		return "P"
	case isNamed(t, modPath+"/triple", "Object"):
		return "O"
	case isNamed(t, modPath+"/triple", "Triple"):
		return "T"
	}
	return ""
}

// walkHelpers visits every instruction of fn and, through statically resolved calls, of the same-package helpers it
// calls (parameters bound to the arguments), to the given depth. top is the instruction of fn the visit descends from.
func walkHelpers(fn *ssa.Function, depth int, visit func(f *ssa.Function, in ssa.Instruction, top ssa.Instruction)) {
	var rec func(f *ssa.Function, d int, top ssa.Instruction)
	rec = func(f *ssa.Function, d int, top ssa.Instruction) {
		allInstrs(f, func(in ssa.Instruction) {
			t := top
			if d == 0 {
				t = in
			}
			visit(f, in, t)
			if cc := callCommon(in); cc != nil && d < depth {
				if callee := helperCallee(f, cc); callee != nil {
					intoHelper(callee, cc, func() { rec(callee, d+1, t) })
				}
			}
		})
	}
	rec(fn, 0, nil)
}

type idxEffect struct {
	top   ssa.Instruction // the instruction of the analysed method the effect happens at or under
	field *types.Var
	outer string // signature of the bucket key ("" for the master index)
	inner string // signature of the element key ("" when the effect is on a whole bucket)
	instr ssa.Instruction
}

// fieldOfLoad returns the struct field a map value was loaded from (m.F), or nil.
func fieldOfLoad(v ssa.Value) *types.Var {
	v = resolveParam(v)
	u, ok := v.(*ssa.UnOp)
	if !ok || u.Op != token.MUL {
		return nil
	}
	fa, ok := u.X.(*ssa.FieldAddr)
	if !ok {
		return nil
	}
	return fieldVar(fa.X.Type(), fa.Field)
}

// bucketOf resolves a map value to (field, outer key value) when it is m.F[k] (plain or comma-ok), or (field, nil) for m.F.
func bucketOf(v ssa.Value) (*types.Var, ssa.Value) {
	v = resolveParam(v)
	if f := fieldOfLoad(v); f != nil {
		return f, nil
	}
	if ex, ok := v.(*ssa.Extract); ok && ex.Index == 0 {
		v = ex.Tuple
	}
	if lk, ok := v.(*ssa.Lookup); ok {
		if f := fieldOfLoad(lk.X); f != nil {
			return f, lk.Index
		}
	}
	return nil, nil
}

func sig(atoms []string) string { return "⟨" + strings.Join(atoms, ",") + "⟩" }

func (c *Ctx) indexEffects(fn *ssa.Function, fields map[*types.Var]bool) (stores, deletes []idxEffect) {
	return c.indexEffectsDepth(fn, fields, 0)
}

func (c *Ctx) indexEffectsDepth(fn *ssa.Function, fields map[*types.Var]bool, depth int) (stores, deletes []idxEffect) {
	walkHelpers(fn, 3, func(_ *ssa.Function, in ssa.Instruction, top ssa.Instruction) {
		switch x := in.(type) {
		case *ssa.MapUpdate:
			f, outer := bucketOf(x.Map)
			if f == nil || !fields[f] {
				return
			}
			e := idxEffect{field: f, instr: in, top: top}
			if outer == nil {
				// m.F[k] = v : for the master index this is the element; for a bucket index it creates the bucket
				if _, isMap := x.Value.Type().Underlying().(*types.Map); isMap {
					e.outer = sig(c.keyAtoms(x.Key, 0))
				} else {
					e.inner = sig(c.keyAtoms(x.Key, 0))
				}
			} else {
				e.outer = sig(c.keyAtoms(outer, 0))
				e.inner = sig(c.keyAtoms(x.Key, 0))
			}
			stores = append(stores, e)
		case *ssa.Call:
			if !isBuiltinCall(&x.Call, "delete") {
				return
			}
			f, outer := bucketOf(x.Call.Args[0])
			if f == nil || !fields[f] {
				return
			}
			e := idxEffect{field: f, instr: in, top: top}
			if outer == nil {
				mt := x.Call.Args[0].Type().Underlying().(*types.Map)
				if _, isMap := mt.Elem().Underlying().(*types.Map); isMap {
					e.outer = sig(c.keyAtoms(x.Call.Args[1], 0))
				} else {
					e.inner = sig(c.keyAtoms(x.Call.Args[1], 0))
				}
			} else {
				e.outer = sig(c.keyAtoms(outer, 0))
				e.inner = sig(c.keyAtoms(x.Call.Args[1], 0))
			}
			deletes = append(deletes, e)
		}
	})
	return
}

// indexOwner returns the Graph implementer that owns the index maps and its map fields.
func (c *Ctx) indexOwner(a *storeAnchors) (*types.Named, map[*types.Var]bool) {
	for _, n := range a.graphImpls {
		mf := mapFields(n)
		nested := false
		for _, f := range mf {
			if _, ok := f.Type().Underlying().(*types.Map).Elem().Underlying().(*types.Map); ok {
				nested = true
			}
		}
		if len(mf) >= 2 && nested {
			m := map[*types.Var]bool{}
			for _, f := range mf {
				m[f] = true
			}
			return n, m
		}
	}
	return nil, nil
}

func methodByName(c *Ctx, n *types.Named, name string) *ssa.Function {
	for _, m := range c.methodsOf(n) {
		if m.Name() == name {
			return m
		}
	}
	return nil
}

func ruleS1(c *Ctx) {
	c.Rule("S1", "every index of the graph is written, deleted and read under the same key: per index the (bucket key, element key) signatures stored by AddTriples equal those deleted by RemoveTriples; the element key is the triple's full UUID; each lookup reads the one index whose bucket key consists of exactly its fixed components, with the writer's UUID/PartialUUID choice; every index is freshly allocated per graph", 30)
	a := c.storeAnchors()
	if a == nil {
		return
	}
	owner, fields := c.indexOwner(a)
	if owner == nil {
		c.undecided("index owner", token.NoPos, "no storage.Graph implementer owning several map fields found")
		return
	}
	add, rem := methodByName(c, owner, "AddTriples"), methodByName(c, owner, "RemoveTriples")
	if add == nil || rem == nil {
		c.undecided("AddTriples/RemoveTriples", token.NoPos, "writer or deleter of %s not found", owner.Obj().Name())
		return
	}
	c.analysed(funcName(add))
	c.analysed(funcName(rem))
	st, _ := c.indexEffects(add, fields)
	addDel, del := c.indexEffects(rem, fields)
	_ = addDel
	if _, d := c.indexEffects(add, fields); len(d) > 0 {
		c.bad("AddTriples deletes", d[0].instr.Pos(), "AddTriples deletes from index %s", d[0].field.Name())
	}
	if s, _ := c.indexEffects(rem, fields); len(s) > 0 {
		c.bad("RemoveTriples stores", s[0].instr.Pos(), "RemoveTriples stores into index %s", s[0].field.Name())
	}
	writerOuter := map[*types.Var]string{}
	var fl []*types.Var
	for f := range fields {
		fl = append(fl, f)
	}
	sort.Slice(fl, func(i, j int) bool { return fl[i].Name() < fl[j].Name() })
	for _, f := range fl {
		// (a) element-level agreement
		sset, dset := map[string]bool{}, map[string]bool{}
		var pos token.Pos
		for _, e := range st {
			if e.field == f && e.inner != "" {
				sset[e.outer+"/"+e.inner] = true
				pos = e.instr.Pos()
				if e.outer != "" {
					writerOuter[f] = e.outer
				}
			}
		}
		for _, e := range del {
			if e.field == f && e.inner != "" {
				dset[e.outer+"/"+e.inner] = true
			}
		}
		key := "index " + owner.Obj().Name() + "." + f.Name()
		ss, ds := setStr(sset), setStr(dset)
		switch {
		case len(sset) == 0:
			c.bad(key+" written", add.Pos(), "AddTriples never stores an element into %s, but the graph owns it (readers would miss every triple)", f.Name())
		case strings.Contains(ss+ds, "?"):
			c.undecided(key+" key shape", pos, "key provenance not recognised: stored %s deleted %s", ss, ds)
		case ss != ds:
			c.bad(key+" add/remove agreement", pos, "elements stored under %s but deleted under %s: removed triples stay visible through %s (or live ones vanish)", ss, ds, f.Name())
		default:
			c.ok(key+" add/remove agreement", pos, "stored and deleted under the same (bucket/element) signatures %s", ss)
		}
		// (b) element key is the triple's UUID
		for k := range sset {
			inner := k[strings.Index(k, "/")+1:]
			if inner != "⟨T⟩" {
				c.bad(key+" element key", pos, "element key is %s, not the triple's full UUID ⟨T⟩: distinct triples would overwrite each other", inner)
			} else {
				c.ok(key+" element key", pos, "element key is the full triple UUID")
			}
		}
		// bucket creation key agrees with element bucket key
		for _, e := range st {
			if e.field == f && e.inner == "" && e.outer != writerOuter[f] {
				c.bad(key+" bucket creation", e.instr.Pos(), "bucket created under %s but filled under %s", e.outer, writerOuter[f])
			}
		}
		for _, e := range del {
			if e.field == f && e.inner == "" && e.outer != writerOuter[f] {
				c.bad(key+" bucket removal", e.instr.Pos(), "bucket removed under %s but filled under %s", e.outer, writerOuter[f])
			}
		}
	}
	// fresh allocation per graph: every index field is initialised from make() in the constructor literal(s)
	c.checkFreshIndexes(a, owner, fl)
	// (c) readers
	readers := 0
	for _, m := range c.methodsOf(owner) {
		if m == add || m == rem {
			continue
		}
		// which index does it read, and with which key
		type read struct {
			f     *types.Var
			outer string
			pos   token.Pos
		}
		var reads []read
		var collect func(fn *ssa.Function, depth int)
		collect = func(fn *ssa.Function, depth int) {
			allInstrs(fn, func(in ssa.Instruction) {
				switch x := in.(type) {
				case *ssa.Lookup:
					if f := fieldOfLoad(x.X); f != nil && fields[f] {
						reads = append(reads, read{f, sig(c.keyAtoms(x.Index, 0)), in.Pos()})
					}
				case *ssa.Call:
					if callee := helperCallee(fn, &x.Call); callee != nil && depth < 3 {
						intoHelper(callee, &x.Call, func() { collect(callee, depth+1) })
						return
					}
					for _, arg := range x.Call.Args {
						if f := fieldOfLoad(arg); f != nil && fields[f] {
							reads = append(reads, read{f, "", in.Pos()})
						}
					}
				case *ssa.Range:
					if f := fieldOfLoad(x.X); f != nil && fields[f] {
						reads = append(reads, read{f, "", in.Pos()})
					}
				}
			})
		}
		collect(m, 0)
		if len(reads) == 0 {
			continue
		}
		readers++
		c.analysed(funcName(m))
		key := funcName(m) + " index read"
		// the fixed components are the node/predicate/object/triple parameters
		var want []string
		for i, p := range m.Params {
			if i == 0 {
				continue
			}
			if k := componentKind(p.Type()); k != "" {
				want = append(want, k)
			}
		}
		if len(reads) != 1 {
			var names []string
			for _, r := range reads {
				names = append(names, r.f.Name()+r.outer)
			}
			c.bad(key, m.Pos(), "reads %d indexes (%s); a lookup must answer from exactly one", len(reads), strings.Join(names, ", "))
			continue
		}
		r := reads[0]
		got := strings.ReplaceAll(strings.Trim(r.outer, "⟨⟩"), "~", "")
		gotKinds := []string{}
		if got != "" {
			gotKinds = strings.Split(got, ",")
		}
		switch {
		case strings.Contains(r.outer, "?"):
			c.undecided(key, r.pos, "key provenance not recognised: %s", r.outer)
		case r.outer == "" && len(want) == 0:
			if _, isMaster := r.f.Type().Underlying().(*types.Map).Elem().Underlying().(*types.Map); isMaster {
				c.bad(key, r.pos, "a lookup without fixed components reads bucket index %s whole", r.f.Name())
			} else {
				c.ok(key, r.pos, "no fixed component: reads the master index %s whole", r.f.Name())
			}
		case r.outer == "":
			c.bad(key, r.pos, "fixed components %v are ignored: the whole index %s is read", want, r.f.Name())
		case len(gotKinds) == 1 && gotKinds[0] == "T" && len(want) == 1 && want[0] == "T":
			if wo, ok := writerOuter[r.f]; ok && wo != "" {
				c.bad(key, r.pos, "existence test reads bucket index %s", r.f.Name())
			} else {
				c.ok(key, r.pos, "reads master index %s by the triple's full UUID", r.f.Name())
			}
		case r.outer != writerOuter[r.f]:
			c.bad(key, r.pos, "reads %s with key %s but the writer fills it under %s: the lookup misses stored triples or returns unrelated ones", r.f.Name(), r.outer, writerOuter[r.f])
		case strings.Join(sortedCopy(gotKinds), ",") != strings.Join(sortedCopy(want), ","):
			c.bad(key, r.pos, "key %s does not consist of exactly the fixed components %v", r.outer, want)
		default:
			c.ok(key, r.pos, "reads %s under %s = the writer's bucket key, built from exactly the fixed components %v", r.f.Name(), r.outer, want)
		}
	}
	if readers < 10 {
		c.undecided("index readers", owner.Obj().Pos(), "only %d reader methods recognised", readers)
	}
}

func sortedCopy(xs []string) []string {
	out := append([]string{}, xs...)
	sort.Strings(out)
	return out
}

func setStr(m map[string]bool) string {
	var xs []string
	for k := range m {
		xs = append(xs, k)
	}
	sort.Strings(xs)
	return "{" + strings.Join(xs, " ") + "}"
}

// checkFreshIndexes: wherever a value of the owner type is constructed, each index field is initialised by make().
func (c *Ctx) checkFreshIndexes(a *storeAnchors, owner *types.Named, fields []*types.Var) {
	sites := 0
	for _, fn := range c.srcFuncs() {
		allInstrs(fn, func(in ssa.Instruction) {
			al, ok := in.(*ssa.Alloc)
			if !ok || namedOf(al.Type()) != owner {
				return
			}
			if _, isPtr := al.Type().Underlying().(*types.Pointer); !isPtr {
				return
			}
			if namedOf(al.Type().Underlying().(*types.Pointer).Elem()) != owner {
				return
			}
			sites++
			inited := map[*types.Var]string{}
			for _, r := range *al.Referrers() {
				fa, ok := r.(*ssa.FieldAddr)
				if !ok {
					continue
				}
				f := fieldVar(fa.X.Type(), fa.Field)
				for _, rr := range *fa.Referrers() {
					if st, ok := rr.(*ssa.Store); ok && st.Addr == fa {
						if _, ok := st.Val.(*ssa.MakeMap); ok {
							inited[f] = "make"
						} else {
							inited[f] = c.term(st.Val)
						}
					}
				}
			}
			for _, f := range fields {
				key := fmt.Sprintf("%s constructs %s.%s", funcName(fn), owner.Obj().Name(), f.Name())
				switch inited[f] {
				case "make":
					c.ok(key, in.Pos(), "index allocated with make() for this graph only")
				case "":
					c.bad(key, in.Pos(), "index %s is left nil in the constructor: the first AddTriples panics", f.Name())
				default:
					c.bad(key, in.Pos(), "index %s is initialised from %s, not a fresh map: graphs would share contents", f.Name(), inited[f])
				}
			}
		})
	}
	if sites == 0 {
		c.undecided("constructor of "+owner.Obj().Name(), owner.Obj().Pos(), "no construction site found")
	}
	// no package-level map of triples in the owner's package
	if p := c.ByPath[owner.Obj().Pkg().Path()]; p != nil {
		for _, n := range p.Types.Scope().Names() {
			if v, ok := p.Types.Scope().Lookup(n).(*types.Var); ok {
				if _, isMap := v.Type().Underlying().(*types.Map); isMap {
					c.bad("package-level map "+n, v.Pos(), "package-level map %s in the driver package: state shared between graphs", n)
				}
			}
		}
	}
}
